#!/bin/bash
# Run once after a fresh restore, offline.  Nothing to compile: checks import the repo from its working tree.
set -e
cd "$(dirname "$0")"
/venv/bin/python -c "import sys; assert sys.version_info >= (3, 12), 'sys.monitoring needs Python 3.12'"
/venv/bin/python -c "import attr, six, asn1crypto, dateutil, urllib3, cryptodatahub"
mkdir -p evidence replays
/venv/bin/python - <<'PY'
import os, zoneinfo
ok = os.path.isdir('/usr/share/zoneinfo') and len(zoneinfo.available_timezones()) > 300
print('tzdata zones:', len(zoneinfo.available_timezones()), 'ok' if ok else 'MISSING (C11 falls back to POSIX TZ strings)')
PY
echo "setup ok"
