#!/usr/bin/env python3
"""Writes /verif/MANIFEST.json from the table below (kept as code so it stays consistent)."""
import json
import os

HERE = os.path.dirname(os.path.dirname(os.path.abspath(__file__)))

NA = {
    'C01': 'compose->parse identity is a pure function of the constructed value; no schedule, clock, fault or history '
           'in it, so deterministic simulation has nothing to vary (its instance on whole records is counted, not '
           'claimed, inside the C04 sender)',
    'C05': 'parse->compose->parse stability is a pure function of the accepted byte string; a relay chain would only '
           'be input generation in simulator vocabulary',
    'C06': 'byte-exact agreement with the TLS RFC layouts needs an independently written encoder/decoder '
           '(differential / translation validation); nothing to schedule or fault',
    'C07': 'same as C06 for the SSH wire layout: a differential oracle, not a simulation target',
    'C08': 'same as C06 for DNS RDATA and the key tag: a differential oracle, not a simulation target',
    'C09': 'same as C06 for MySQL/RDP/OpenVPN/PostgreSQL/LDAP layouts: a differential oracle, not a simulation target',
    'C10': 'exhaustive enumeration of finite code spaces is bounded model checking of tables, explicitly outside '
           'this technique family; no schedule or fault in the statement',
    'C15': 'JA3 equals its definition: a pure function of the hello bytes',
    'C16': 'HASSH / fingerprints equal their definitions: pure functions of KEXINIT / key bytes',
    'C17': 'strict total order over 38 versions: exhaustive pairs/triples; order of arrival in sorted()/max() is not '
           'a schedule the code observes',
    'C18': 'spelling-insensitivity of text fields is grammar-driven input generation; no schedule, fault or history',
}

PENDING = {}

CHECKS = {}


def check(pid, engine, category, text, note, technique, design_ref):
    CHECKS[pid] = {
        'property_id': pid,
        'quick_cmd': 'timeout 900 ./check %s --tier quick' % pid,
        'thorough_cmd': 'timeout 5400 ./check %s --tier thorough' % pid,
        'evidence_file': 'evidence/%s.json' % pid,
        'replay_cmd_template': './check %s --replay {path}' % pid,
        'engine': engine,
        'level_claimed': {'category': category, 'text': text, 'design_ref': design_ref},
        'level_note': note,
        'technique': technique,
    }


exec(open(os.path.join(HERE, 'tools', 'manifest_checks.py')).read())  # pylint: disable=exec-used

_LATER = {
    'C02': ' Further complete sweeps: extreme 2/3/4/8-byte integers at every offset, every enum name replaced by every '
           'other name of its enumeration, big-integer / coordinate boundary fills of every length-prefixed span, every '
           'byte-string constant of the library at every offset, pairs of span faults (one emptied, one grown), pairs of '
           'single-octet faults and truncation + octet faults on small inputs, grammar fragments at the end of every text '
           'value, identifiers of the data hub tables swapped.',
    'C03': ' A receive buffer object refilled in place must give what a fresh copy of its content gives; a unit accepted '
           'alone is accepted whatever follows it (tens of KiB included); complete single-octet sweeps of every small '
           'binary seed (+-1, +2, 00, ff; shorter and with data behind) and of the first of two coalesced units; units '
           'whose 24-bit length is at its maximum.',
    'C04': ' Equal-length handshake twins, one message per record, senders that edit items in place, spec senders '
           '(SSL 2.0 long header, LDAP BER forms, OpenVPN key ids), units the library composes but does not accept whole, '
           'applications registering their own message parsers between reads.',
    'C12': ' Position operands of wrong type or absurd size, one-shot iterables and wrong-valued items are injected as '
           'faults; declared bounds are compared with a committed reference table.',
    'C13': ' Complete sweeps: every accepted input of every class observed around compose(), with fields broken and '
           'restored between calls and the caller writing into returned buffers; every class under a fixed series of '
           'caller edits; one observation history per class; identity scans for shared mutable objects between two '
           'parses, between default values (nested) and in non-attrs classes.',
    'C14': ' Complete sweeps over accepted inputs: every length-prefixed value / token replaced by other alphabets and '
           'boundary values, every number by small numbers and special tokens, every single octet overwritten; whatever '
           'is still accepted must serialise well-formed (NaN / Infinity are not JSON); every valid input is compared '
           'with its compose-parse round trip; histories also run under other time zones.',
    'C19': ' Nesting shapes (a seed nested in its own recursion point), length-prefixed item shapes, whole-unit and '
           'mutated-unit repetition, pairwise distinct / unterminated items, depth growth and repeat-after-sweep clauses.',
    'C11': ' Flag words are parsed again after the earlier result was edited; fixed-length mpints in all byte orders; '
           'byte order assigned after construction; arrays with one bad item; default clock values under every zone.',
}
for _pid, _more in _LATER.items():
    if _pid in CHECKS:
        CHECKS[_pid]['level_claimed']['text'] += _more

for _entry in CHECKS.values():
    _entry['level_claimed']['text'] += (
        ' Every check also runs seeded histories of its own runs: each run alone in a pristine forked process vs. '
        'after the runs before it in one long-lived process; a recorded outcome that depends on earlier runs is a '
        'violation (DESIGN.md 2.1).')

manifest = {
    'version': 1,
    'setup_cmd': './setup.sh',
    'hooks': {
        'guard': 'CRYPTOPARSER_VERIF',
        'enable': 'no source hook exists: every seam is a call argument, an environment variable (TZ, PYTHONHASHSEED) '
                  'or a module attribute patched from /verif; the guard name is reserved and unused',
        'baseline_off_cmd': 'cd /repo && /venv/bin/python -m pytest -ra -q -p no:cacheprovider --timeout=900 '
                            '--continue-on-collection-errors',
        'source_commits': [],
        'add_only': True,
    },
    'engines': [
        {'name': 'wiresim', 'path': 'simverif/wire.py',
         'serves_properties': [p for p in ('C02', 'C03', 'C04', 'C19') if p in CHECKS],
         'kind_free_text': 'sender (real compose) / simulated transport with seeded segmentation and transit faults / '
                           'reader loop around the real parse_* entry points; sys.monitoring step clock'},
        {'name': 'objsim', 'path': 'simverif/props',
         'serves_properties': [p for p in ('C11', 'C12', 'C13', 'C14') if p in CHECKS],
         'kind_free_text': 'seeded operation histories over live library objects against reference models; process '
                           'environment (TZ, hash seed, encoder state) as the varied dimension'},
    ],
    'checks': [CHECKS[k] for k in sorted(CHECKS)],
    'not_applicable': [{'property_id': k, 'reason': v} for k, v in sorted({**NA, **PENDING}.items()) if k not in CHECKS],
    'notes': 'Technique family: deterministic simulation with fault injection. See DESIGN.md. Exit codes: 0 held, '
             '1 violation (VIOLATION line with replay file), 2 harness fault (never a verdict).',
}
with open(os.path.join(HERE, 'MANIFEST.json'), 'w') as handle:
    json.dump(manifest, handle, indent=1)
print('checks:', sorted(CHECKS), 'not_applicable:', [e['property_id'] for e in manifest['not_applicable']])
