#!/bin/bash
# usage: mutant.sh <patch.diff> [--notests] <prop> [more check args]
# Applies the patch to a scratch worktree of /repo (never to /repo), runs the pinned test suite there,
# runs the given check against it, removes the worktree.
patch="$(realpath "$1")"; shift
notests=0; if [ "$1" = "--notests" ]; then notests=1; shift; fi
wt="/tmp/vmut.$$"
git -C /repo worktree add --detach -q "$wt" HEAD || exit 3
trap 'git -C /repo worktree remove --force "$wt" >/dev/null 2>&1; rm -rf "$wt"' EXIT
git -C "$wt" apply "$patch" || { echo "patch does not apply"; exit 3; }
if [ $notests = 0 ]; then
  echo -n "suite on mutant: "; (cd "$wt" && /venv/bin/python -m pytest -q -p no:cacheprovider --timeout=900 2>&1 | tail -1)
fi
cd /verif && VERIF_REPO="$wt" timeout 1800 ./check "$@"
echo "check exit=$?"
