import json, atexit, functools
from cryptoparser.common import parse as P
CORPUS = {}
def rec(cls, data, ok):
    try:
        b = bytes(data)
    except Exception:
        return
    key = cls.__module__ + '.' + cls.__qualname__
    CORPUS.setdefault(key, {}).setdefault('ok' if ok else 'bad', set()).add(b.hex())
def wrap(name):
    orig = getattr(P.ParsableBaseNoABC, name).__func__
    def w(cls, parsable):
        snapshot = bytes(parsable) if isinstance(parsable, (bytes, bytearray)) else None
        try:
            r = orig(cls, parsable)
        except Exception:
            if snapshot is not None: rec(cls, snapshot, False)
            raise
        if snapshot is not None: rec(cls, snapshot, True)
        return r
    setattr(P.ParsableBaseNoABC, name, classmethod(w))
for n in ('parse_mutable', 'parse_immutable', 'parse_exact_size'):
    wrap(n)
def dump():
    out = {k: {kk: sorted(vv) for kk, vv in v.items()} for k, v in CORPUS.items()}
    json.dump(out, open('/tmp/probe/corpus.json', 'w'))
atexit.register(dump)
