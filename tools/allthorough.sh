#!/bin/bash
for p in ${@:-C03 C04 C11 C12 C13 C14 C02 C19}; do echo "=== thorough $p"; VERIF_MAX_REPORTS=40 ./check $p --tier thorough 2>&1 | grep -a -v "^KNOWN-FINDING" | tail -40 | cut -c1-500; done
