# executed by gen_manifest.py
check('C04', 'wiresim', 'exploration',
      'Seeded search over fault-free delivery schedules: library-composed records of every record layer (and TLS '
      'handshake streams re-cut into record fragments) are delivered under seven segmentation policies to strict / '
      'eager / exactly-what-was-asked reader loops around parse_mutable; every not-enough-data answer is checked '
      'against the really missing byte count, every success against the true boundary, the delivered history '
      'against the unfragmented parse; plus complete prefix sweeps of single records. Sampling, not proof.',
      'Trusted: the reader-loop model and the sender (boundaries = lengths compose() returned). Records the library '
      'composes but does not accept whole are C01-class and are not sent (counted in evidence).',
      'deterministic simulation: seeded delivery schedules + reader-loop invariants + history check', 'DESIGN.md 3.1')
PENDING.update({p: 'claimed in DESIGN.md; its check is not built yet in this tree (under construction)'
                for p in ('C02', 'C03', 'C11', 'C12', 'C13', 'C14', 'C19')})
