# executed by gen_manifest.py
check('C04', 'wiresim', 'exploration',
      'Seeded search over fault-free delivery schedules: library-composed records of every record layer (and TLS '
      'handshake streams re-cut into record fragments) are delivered under seven segmentation policies to strict / '
      'eager / exactly-what-was-asked reader loops around parse_mutable; every not-enough-data answer is checked '
      'against the really missing byte count, every success against the true boundary, the delivered history '
      'against the unfragmented parse; plus complete prefix sweeps of single records. Sampling, not proof.',
      'Trusted: the reader-loop model and the sender (boundaries = lengths compose() returned). Records the library '
      'composes but does not accept whole are C01-class and are not sent (counted in evidence).',
      'deterministic simulation: seeded delivery schedules + reader-loop invariants + history check', 'DESIGN.md 3.1')
PENDING.update({p: 'claimed in DESIGN.md; its check is not built yet in this tree (under construction)'
                for p in ('C02', 'C03', 'C11', 'C12', 'C13', 'C14', 'C19')})
check('C03', 'wiresim', 'exploration',
      'Seeded search over coalesced and faulted record streams and over faulted datagrams of every corpus class: at '
      'every reader step the three entry points are called on the same buffer and compared (n is an int in '
      '[0, len], n > 0 for framing units, in-place variant removes exactly buf[:n], exact-size variant succeeds iff '
      'n == len and otherwise raises too-much-data, failed parse leaves the buffer untouched); accepted framing units '
      'are re-parsed alone and with foreign suffixes and compared with an independent reference framer. Sampling.',
      'Trusted: the reference framer (header layouts from the specs), canon() equality, the static corpus.',
      'deterministic simulation: seeded transit faults + coalescing, reader-step invariants, reference framer',
      'DESIGN.md 3.2')
check('C02', 'wiresim', 'fault_enumeration',
      'Complete enumeration of a finite fault set (every truncation and every single-byte overwrite with '
      '00/01/7f/80/ff at every offset of every accepted corpus seed <= 256 bytes) plus seeded multi-fault '
      'exploration (9 transit fault kinds biased to length fields, separators and text) over datagrams of every '
      'corpus class and streams of composed records with the second-layer parsers; every exception escaping any '
      'entry point must be one of the four documented parse errors; a leak is identified by its innermost repo frame.',
      'Trusted: the static corpus as the set of valid messages faults are applied to; dependency exceptions count '
      'as the library\'s. Known leak sites of the pinned tree are listed in known_findings.json.',
      'deterministic simulation: enumerated single faults + seeded multi-fault schedules, exception-class invariant',
      'DESIGN.md 3.3')
for _p in ('C02', 'C03'):
    PENDING.pop(_p, None)
check('C19', 'wiresim', 'exploration',
      'Bounded liveness on a virtual clock (sys.monitoring LINE events in repo code, exact and machine independent): '
      'every library call made on seeded faulted datagrams and faulted record streams is held to steps <= 4000*len + '
      '150000 and depth <= 150 (a hard step cap turns a runaway call into a violation instead of a hang); 51 scalable '
      'shapes (many headers / list items / one huge value / no separator / separator runs / declared counts) are '
      'measured at n..16n and the growth exponent at the two largest doublings must be <= 1.25; hostile length and '
      'count fields are run under tracemalloc against peak <= 2048*len + 8 MiB. Sampling.',
      'Trusted: LINE events as the step measure (work inside C calls and dependencies is not counted); the constants '
      'are generous by design so that slower-but-linear code does not alarm.',
      'deterministic simulation: virtual step clock + seeded faults + scaling series', 'DESIGN.md 3.4')
PENDING.pop('C19', None)
check('C12', 'objsim', 'exploration',
      'Seeded operation histories (append, insert, extend, +=, pop, remove, del, item and slice assignment, reverse, '
      'clear; integer and slice positions incl. negative / out of range) over every concrete vector class, from start '
      'vectors biased to both size bounds and bulk near-maximum vectors, compared after every operation with a plain '
      'list that received the same operation: same contents, encoded body size (independent per-kind wire size model '
      'and compose()) within [min, max], prefix == body length, a refused or failed edit changes nothing, an edit '
      'leaving the bounds is refused with a data-length error; a fill/drain probe makes drifted bookkeeping observable.',
      'Trusted: the list model, the per-kind size model (written from the wire formats), item pools harvested from '
      'the corpus and enum tables. Not demanded: that every in-bounds edit is accepted.',
      'deterministic simulation: seeded operation histories vs reference model (list), refused edits as injected faults',
      'DESIGN.md 4.1')
PENDING.pop('C12', None)
check('C13', 'objsim', 'exploration',
      'Seeded histories in three families, judged by frozen canonical snapshots: (observe) interleavings with repeats '
      'of compose / ja3 / hassh / fingerprints / key_tag / as_json / as_markdown / _asdict / str / repr on corpus-parsed, '
      'factory-built and default-constructed objects, with failing calls provoked at the cipher-suite ceiling - the '
      'object must stay equal to its snapshot, every observer must repeat its first outcome, the class-level text '
      'encoder must be left as found; (buffer) the same bytes parsed from bytes and from a bytearray through all entry '
      'points, then the receive buffer is overwritten / cleared / extended and the object edited while the buffer is '
      'watched; (defaults) for every attrs class with defaulted fields: construct, mutate defaulted fields in place, '
      'construct again. Runs that edit objects execute in a forked child so state cannot leak between runs.',
      'Trusted: canon() over public fields as the equality; "mutable" = list, bytearray, dict, set, vector, non-frozen '
      'attrs instance. Thread pre-emption of observers is deliberately not a criterion.',
      'deterministic simulation: seeded observer / buffer-reuse / instance-lifetime histories vs frozen snapshots',
      'DESIGN.md 4.2')
PENDING.pop('C13', None)
check('C14', 'objsim', 'exploration',
      'Three simulated dimensions of the process environment and history: (i) hash randomisation - every corpus '
      'object plus fixed factory-built and synthetic report objects are serialised in fresh interpreters under 3 '
      '(quick) / 16 (thorough) PYTHONHASHSEED values and compared; (ii) construction order - set / dict valued fields '
      'are rebuilt with permuted insertion orders of members chosen to collide in small hash tables, and compared '
      'with each other and with the parse-compose round trip; (iii) serialisation order and residual state - seeded '
      'histories serialise 2-8 subjects in two different orders, with and without a custom post_text_encoder '
      'installed, checking well-formedness (json.loads, str), order independence, equality with the round-trip twin, '
      'and that the installed encoder survives every call.',
      'Trusted: json.loads as the standard JSON parser; canon() to decide that two objects are equal. Faithfulness '
      'of individual renderings (what the text says) is not judged, only totality, well-formedness and determinism.',
      'deterministic simulation: fresh interpreters per hash seed, permuted construction order, seeded serialisation histories',
      'DESIGN.md 4.3')
PENDING.pop('C14', None)
check('C11', 'objsim', 'exploration',
      'The machine\'s time-zone configuration is the simulated dimension: every tzdata zone (599) and 16 POSIX TZ '
      'strings are installed with TZ + tzset() and compose_timestamp / parse_timestamp (4/8 bytes, seconds / '
      'milliseconds, aware-UTC / naive-UTC / aware-other-offset values, the forever sentinel) plus the corpus '
      'messages built on them (SSH certificates, RRSIG, SCT) are driven at instants in 1970..2106 biased to +-2h '
      'around each zone\'s offset transitions (bisected from zoneinfo); composed bytes must equal integer arithmetic '
      'on the instant under every zone and parse back to it. The zone-free clauses (1/2/3/4/8-byte integers in four '
      'byte orders incl. overflow rejection, flag sets with shifts, fixed-length and SSH mpints of both signs up to '
      '4096 bits) ride along as a plain differential oracle against int.to_bytes/from_bytes: all 1- and 2-byte values '
      'in quick, all 3-byte values in thorough.',
      'Trusted: int.to_bytes / from_bytes and the RFC 4251 mpint reference written in the check; zoneinfo for locating '
      'transitions. ByteOrder.NATIVE follows the host CPU, which cannot be varied here.',
      'deterministic simulation of the process environment (TZ / tzset sweep) + differential oracle for the pure clauses',
      'DESIGN.md 4.4')
PENDING.pop('C11', None)
