#!/bin/bash
# usage: eval_seeded.sh <dir with patch.diff demo.py meta.json> <id> <prop> [more props]
# Confirms the seeded change (suite unchanged, demo fails with / passes without), runs the given checks
# against it in a scratch worktree, and files it under /verif/seeded/<id>/.
src="$(realpath "$1")"; id="$2"; shift 2
wt="/tmp/vseed.$$"
git -C /repo worktree add --detach -q "$wt" HEAD || exit 3
trap 'git -C /repo worktree remove --force "$wt" >/dev/null 2>&1; rm -rf "$wt"' EXIT
cp "$src/demo.py" "$wt/demo_seeded.py"
( cd "$wt" && /venv/bin/python demo_seeded.py >/dev/null 2>&1 ); clean=$?
git -C "$wt" apply "$src/patch.diff" || { echo "patch does not apply"; exit 3; }
suite=$(cd "$wt" && /venv/bin/python -m pytest -q -p no:cacheprovider --timeout=900 2>&1 | tail -1)
( cd "$wt" && /venv/bin/python demo_seeded.py >/dev/null 2>&1 ); broken=$?
echo "[$id] suite: $suite | demo clean-exit=$clean patched-exit=$broken"
caught=""
for prop in "$@"; do
  out=$(cd /verif && VERIF_REPO="$wt" timeout 1800 ./check "$prop" --tier quick 2>&1); code=$?
  sigs=$(echo "$out" | grep -a "^  signature:" | head -3 | sed 's/  signature: //' | tr '\n' ';')
  echo "[$id] $prop exit=$code $sigs"
  if [ $code = 1 ]; then caught="$caught $prop"; fi
  if [ $code = 2 ]; then echo "$out" | tail -15; fi
done
find /verif/replays -name "*.json" -delete
mkdir -p "/verif/seeded/$id"
cp "$src/patch.diff" "$src/demo.py" "/verif/seeded/$id/"
/venv/bin/python - "$src/meta.json" "/verif/seeded/$id/meta.json" "$suite" "$clean" "$broken" "$caught" "$*" <<'PY'
import json, sys
src, dst, suite, clean, broken, caught, ran = sys.argv[1:8]
meta = json.load(open(src))
meta['confirmed'] = {'suite_with_change': suite.strip(), 'demo_exit_without_change': int(clean), 'demo_exit_with_change': int(broken)}
meta['checks_run'] = ran.split()
meta['caught_by'] = caught.split()
json.dump(meta, open(dst, 'w'), indent=1)
PY
echo "[$id] caught by:${caught:- NONE}"
