#!/bin/bash
for seed in 1 2 3; do for p in C02 C03 C04 C11 C12 C13 C14 C19; do echo "=== seed $seed $p"; VERIF_SEED=$seed ./check $p --tier quick 2>&1 | grep -a -v "^KNOWN-FINDING" | tail -4 | cut -c1-400; done; done
