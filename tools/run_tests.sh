#!/bin/bash
# runs the pinned suite; prints the summary line; exit 0 iff 637 passed and only the 7 baseline failures
cd /repo && out=$(/venv/bin/python -m pytest -q -p no:cacheprovider --timeout=900 --continue-on-collection-errors 2>&1 | tail -1)
echo "$out"
echo "$out" | grep -q "7 failed, 637 passed" 
