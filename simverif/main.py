# -*- coding: utf-8 -*-
"""Entry point: /verif/check <Cxx> [--tier quick|thorough] [--replay FILE] ..."""

import argparse
import faulthandler
import importlib
import os
import sys
import traceback

sys.path.insert(0, os.path.dirname(os.path.dirname(os.path.abspath(__file__))))

from simverif import core  # noqa: E402  pylint: disable=wrong-import-position

PROPS = ('C02', 'C03', 'C04', 'C11', 'C12', 'C13', 'C14', 'C19')


def main(argv=None):
    parser = argparse.ArgumentParser(prog='check')
    parser.add_argument('target', help='property id (%s) or "selftest"' % ', '.join(PROPS))
    parser.add_argument('what', nargs='?', default=None)
    parser.add_argument('--tier', default=os.environ.get('VERIF_TIER', 'quick'), choices=('quick', 'thorough'))
    parser.add_argument('--replay', default=None)
    parser.add_argument('--expect', default=None)
    parser.add_argument('--shrink-history', action='store_true', help='minimise the history in the replay file first')
    parser.add_argument('--mini-digest', type=int, default=None)
    parser.add_argument('--aux', nargs='+', default=None, help='module-specific sub-command run in a fresh interpreter')
    args = parser.parse_args(argv)
    faulthandler.enable()
    try:
        if args.target == 'selftest':
            from simverif import selftest
            return selftest.main(args.what, args.tier)
        prop = args.target.upper()
        if prop not in PROPS:
            print('unknown property %r (claimed: %s)' % (args.target, ', '.join(PROPS)))
            return core.EXIT_HARNESS
        core.setup_repo()
        module = importlib.import_module('simverif.props.' + prop.lower())
        seed = core.batch_seed()
        if args.aux:
            return module.aux(args.aux[0], args.aux[1:])
        if args.replay:
            if hasattr(module, 'prepare'):
                module.prepare(args.tier)
            if args.shrink_history:
                core.shrink_history_file(module, args.replay)
            return core.replay(module, args.replay, args.expect)
        if args.mini_digest is not None:
            extra = module.prepare(args.tier) if hasattr(module, 'prepare') else None
            print('MINI-DIGEST %s' % core.mini_digest(module, seed, args.tier, list(range(args.mini_digest)), extra))
            return core.EXIT_OK
        print('%s: tier=%s VERIF_SEED=%d repo=%s jobs=%d' % (prop, args.tier, seed, core.REPO, core.jobs()))
        return module.check(args.tier, seed)
    except core.HistoryViolation as exc:
        # the determinism self-test failed because results depend on earlier calls: the library's doing
        known = core.load_known_findings(prop)
        fresh = [sig for sig in exc.sigs if sig not in known]
        for sig in exc.sigs:
            if sig in known:
                print('KNOWN-FINDING: property=%s %s  [signature %s]' % (prop, known[sig].get('what', ''), sig))
        if not fresh:
            print('HARNESS-ERROR: the determinism self-test failed on listed findings only; the batch cannot run')
            return core.EXIT_HARNESS
        print('VIOLATION property=%s replay=%s' % (prop, exc.path))
        for sig in fresh[:6]:
            print('  signature: %s' % sig)
        print('  clause:    the same schedules executed twice in one process differ; as one history of runs in a fresh '
              'interpreter each run alone in a pristine child differs from the run in order')
        core.write_evidence(prop, args.tier, seed, 'exploration', {
            'evaluations': 2, 'distinct_nontrivial': 2, 'samples': [{'replay': exc.path, 'signatures': fresh[:6]}],
            'rule': 'determinism self-test only (its schedules executed twice as one history of runs, alone vs. in '
                    'order): the batch was not run because results depend on earlier calls in the same process',
            'exhaustive': False}, [], 0.0, len(fresh))
        return core.EXIT_VIOLATION
    except core.HarnessError as exc:
        print('HARNESS-ERROR: %s' % exc)
        return core.EXIT_HARNESS
    except Exception:  # pylint: disable=broad-except
        print('HARNESS-ERROR: unexpected exception in the machinery\n%s' % traceback.format_exc())
        return core.EXIT_HARNESS


if __name__ == '__main__':
    sys.stdout.reconfigure(line_buffering=True)
    sys.exit(main())
