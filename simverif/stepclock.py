# -*- coding: utf-8 -*-
"""Deterministic step clock: counts sys.monitoring LINE events and Python stack depth for code
objects under the repo, only while a library call runs.  A hard step cap turns a runaway call
into an exception (StepBudgetExceeded, a BaseException) so unbounded work is observed as a
violation instead of a hang."""

import sys

from simverif import core

TOOL_ID = 3  # not the debugger (0), coverage (1), profiler (2) ids


class StepBudgetExceeded(BaseException):
    pass


class StepClock(object):
    def __init__(self, cap=30_000_000):
        self.mon = sys.monitoring
        self.steps = 0
        self.depth = 0
        self.max_depth = 0
        self.cap = cap
        self.prefix = core.REPO_PKG_PREFIX
        self._installed = False
        self._known = {}

    def install(self):
        if self._installed:
            return
        mon = self.mon
        if mon.get_tool(TOOL_ID) is not None:
            mon.free_tool_id(TOOL_ID)
        mon.use_tool_id(TOOL_ID, 'simverif-steps')
        events = mon.events
        mon.register_callback(TOOL_ID, events.LINE, self._on_line)
        mon.register_callback(TOOL_ID, events.PY_START, self._on_start)
        mon.register_callback(TOOL_ID, events.PY_RETURN, self._on_return)
        mon.register_callback(TOOL_ID, events.PY_UNWIND, self._on_unwind)
        self._events = events.LINE | events.PY_START | events.PY_RETURN | events.PY_UNWIND
        self._installed = True

    def _inside(self, code):
        known = self._known.get(code)
        if known is None:
            # repo files, and the methods attrs generates for the repo's classes (__init__, __eq__, ...), whose
            # code objects carry a synthetic file name
            known = code.co_filename.startswith(self.prefix) or code.co_filename.startswith('<attrs generated')
            self._known[code] = known
        return known

    def _on_line(self, code, line):  # pylint: disable=unused-argument
        if not self._inside(code):
            return self.mon.DISABLE
        self.steps += 1
        if self.steps > self.cap:
            raise StepBudgetExceeded(self.steps)
        return None

    def _on_start(self, code, offset):  # pylint: disable=unused-argument
        if not self._inside(code):
            return self.mon.DISABLE
        self.depth += 1
        if self.depth > self.max_depth:
            self.max_depth = self.depth
        return None

    def _on_return(self, code, offset, retval):  # pylint: disable=unused-argument
        if not self._inside(code):
            return self.mon.DISABLE
        self.depth -= 1
        return None

    def _on_unwind(self, code, offset, exc):  # pylint: disable=unused-argument
        if self._inside(code):
            self.depth -= 1

    def call(self, func, *args):
        """Run func(*args) on the clock; afterwards .steps / .max_depth describe the call."""
        self.install()
        self.steps = 0
        self.depth = 0
        self.max_depth = 0
        self.mon.set_events(TOOL_ID, self._events)
        try:
            return func(*args)
        finally:
            self.mon.set_events(TOOL_ID, 0)

    def measure(self, func, *args):
        """(steps, max_depth, outcome, value-or-exception); never raises except harness/BaseException
        other than the step cap."""
        try:
            value = self.call(func, *args)
            return self.steps, self.max_depth, 'ok', value
        except StepBudgetExceeded as exc:
            return self.steps, self.max_depth, 'cap', exc
        except (core.RunTimeout, KeyboardInterrupt, SystemExit):
            raise
        except BaseException as exc:  # pylint: disable=broad-except
            return self.steps, self.max_depth, 'exc', exc


_CLOCK = None


def clock():
    global _CLOCK  # pylint: disable=global-statement
    if _CLOCK is None:
        _CLOCK = StepClock()
    return _CLOCK
