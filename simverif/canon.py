# -*- coding: utf-8 -*-
"""canon(obj): recursive canonical form used for every equality/aliasing oracle.

Needed because several library classes define no __eq__ and because repr() of some
dependency objects contains addresses.  The set of leaf types is closed: an unknown type
raises HarnessError instead of guessing.
"""

import collections
import datetime
import enum
import ipaddress

import attr

from simverif.core import HarnessError

_MAX_DEPTH = 80


def _leaf_rules():
    rules = []
    try:
        import asn1crypto.core as asn1_core
        rules.append((asn1_core.Asn1Value, lambda o: ('asn1', type(o).__name__, bytes(o.dump()).hex())))
    except ImportError:  # pragma: no cover
        pass
    try:
        import urllib3.util.url as u3
        rules.append((u3.Url, lambda o: ('url', str(o))))
    except ImportError:  # pragma: no cover
        pass
    rules.append(((ipaddress.IPv4Address, ipaddress.IPv6Address, ipaddress.IPv4Network, ipaddress.IPv6Network),
                  lambda o: ('ip', type(o).__name__, str(o))))
    return rules


_LEAF_RULES = None


def canon(obj, _depth=0):  # pylint: disable=too-many-return-statements,too-many-branches
    global _LEAF_RULES  # pylint: disable=global-statement
    if _LEAF_RULES is None:
        _LEAF_RULES = _leaf_rules()
    if _depth > _MAX_DEPTH:
        raise HarnessError('canon: nesting deeper than %d' % _MAX_DEPTH)
    if obj is None:
        return None
    if isinstance(obj, enum.Enum):
        return ('enum', type(obj).__name__, obj.name)
    if isinstance(obj, bool):
        return ('bool', obj)
    if isinstance(obj, int):
        return ('int', int(obj))
    if isinstance(obj, float):
        return ('float', repr(obj))
    if isinstance(obj, str):
        return ('str', str(obj))
    if isinstance(obj, (bytes, bytearray, memoryview)):
        return ('bytes', bytes(obj).hex())
    if isinstance(obj, datetime.datetime):
        if obj.tzinfo is None:
            return ('dt-naive', obj.isoformat())
        delta = obj - datetime.datetime(1970, 1, 1, tzinfo=datetime.timezone.utc)
        # the instant and the offset it is expressed in: both are observable (isoformat, serialised forms)
        offset = obj.utcoffset()
        return ('dt', delta.days, delta.seconds, delta.microseconds,
                None if offset is None else offset.days * 86400 + offset.seconds)
    if isinstance(obj, datetime.timedelta):
        return ('td', obj.days, obj.seconds, obj.microseconds)
    if isinstance(obj, datetime.date):
        return ('date', obj.isoformat())
    # library vectors: by items (their bookkeeping fields are checked separately by C12)
    from cryptoparser.common.base import ArrayBase
    if isinstance(obj, ArrayBase):
        # the byte counter is compared by the class's own __eq__, so it is part of the object's state
        return ('vec', type(obj).__name__, tuple(canon(item, _depth + 1) for item in obj),
                getattr(obj, '_items_size', None))
    if isinstance(obj, (list, tuple)):
        return ('seq', tuple(canon(item, _depth + 1) for item in obj))
    if isinstance(obj, (set, frozenset)):
        return ('set', tuple(sorted((canon(item, _depth + 1) for item in obj), key=repr)))
    if isinstance(obj, collections.OrderedDict):
        return ('odict', tuple((canon(k, _depth + 1), canon(v, _depth + 1)) for k, v in obj.items()))
    if isinstance(obj, dict):
        return ('dict', tuple(sorted(
            ((canon(k, _depth + 1), canon(v, _depth + 1)) for k, v in obj.items()), key=repr)))
    for types, rule in _LEAF_RULES:
        if isinstance(obj, types):
            return rule(obj)
    if attr.has(type(obj)):
        # fields the class itself excludes from equality (eq=False: caches, bookkeeping) are not object state
        return ('attrs', type(obj).__name__, tuple(
            (field.name, canon(getattr(obj, field.name), _depth + 1)) for field in attr.fields(type(obj)) if field.eq
        ) + _extra_dict(obj, _depth))
    module = type(obj).__module__ or ''
    if isinstance(obj, type):
        return ('type', obj.__module__, obj.__qualname__)
    if callable(obj) and hasattr(obj, '__qualname__'):
        return ('callable', getattr(obj, '__module__', ''), obj.__qualname__)
    if hasattr(obj, '__dict__') and module.startswith(('cryptoparser', 'cryptodatahub', 'attr')):
        return ('obj', type(obj).__name__, tuple(sorted(
            (key, canon(value, _depth + 1)) for key, value in vars(obj).items())))
    if hasattr(obj, '__slots__') and module.startswith(('cryptoparser', 'cryptodatahub', 'attr')):
        return ('slots', type(obj).__name__, tuple(
            (name, canon(getattr(obj, name, None), _depth + 1)) for name in sorted(obj.__slots__)))
    raise HarnessError('canon: unknown leaf type %s.%s' % (module, type(obj).__name__))


def _extra_dict(obj, depth):
    """attrs classes whose __init__ sets further instance attributes (e.g. OpenVPN hard reset).  Private
    attributes outside the declared fields (memoised results) are not object state: whether a memo is right is
    judged by what the observers return, not by its presence."""
    data = getattr(obj, '__dict__', None)
    if not data:
        return ()
    names = {field.name for field in attr.fields(type(obj))}
    extra = tuple(sorted((key, canon(value, depth + 1)) for key, value in data.items()
                         if key not in names and not key.startswith('_')))
    return (('__extra__', extra), ) if extra else ()


def digest(obj):
    import hashlib
    return hashlib.sha256(repr(canon(obj)).encode('utf-8', 'backslashreplace')).hexdigest()[:16]
