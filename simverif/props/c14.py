# -*- coding: utf-8 -*-
"""C14 - JSON and Markdown output is always well-formed, deterministic and faithful.

Simulated dimensions: (i) hash randomisation - the same subjects serialised in fresh
interpreters under several PYTHONHASHSEED values; (ii) construction order of set / dict valued
fields; (iii) serialisation order and the class-level text encoder (residual state)."""

import hashlib
import json
import os
import random as _random
import subprocess
import sys
import time

import attr

from simverif import core, corpus
from simverif.canon import canon
from simverif.props import c13

PROPERTY = 'C14'
LEVEL = 'exploration'

RULE = (
    'history: 2-8 subjects (corpus-parsed objects of any class, factory-built messages, default-constructed objects) '
    'serialised (JSON, Markdown) in a seeded order, then fresh copies in a second seeded order, with or without a '
    'custom post_text_encoder installed; outputs must be well-formed, equal across the two orders, equal for an object '
    'and its compose-parse round trip, and the installed encoder must survive every call. setorder: one object with a '
    'set/dict-valued field rebuilt with permuted insertion orders (members chosen to collide in small hash tables). '
    'hashseed: every corpus object and a fixed list of factory subjects serialised in fresh interpreters under '
    'several PYTHONHASHSEED values. Signature = (kind, classes, encoder, order relation); non-trivial = order2 differs '
    'from order1, or an encoder is installed, or a permutation / another hash seed is involved.'
)

HASH_SEEDS = {'quick': (1, 7, 12345), 'thorough': (1, 2, 3, 5, 7, 11, 97, 1000, 4242, 12345, 54321, 99999, 123456, 7654321, 2 ** 31, 4294967295)}


class TagEncoder(object):
    """A report front-end's encoder: marks every leaf so that a call rendered with the wrong encoder shows."""
    def __call__(self, obj, level):
        text = obj if isinstance(obj, str) else str(obj)
        return False, '[[' + text + ']]'


def prepare(tier):  # pylint: disable=unused-argument
    c13.prepare(tier)
    set_field_sites()
    shared_field_groups()
    accepted_sweep_list()
    return {'phase': 'history'}


# ---------------------------------------------------------------- subjects / serialisation

def _spec_choices(rng):
    paths = corpus.class_paths()
    roll = rng.random()
    if roll < 0.12:
        return ['synth', rng.getrandbits(48)]
    if roll < 0.30:
        # a mutated but still accepted input: unusual names, characters and values coming from the wire
        from simverif import wirefault
        path = rng.choice(paths)
        seeds = corpus.accepted_plus(path)
        if seeds:
            raw = rng.choice(seeds)
            faults = (wirefault.typed_faults(rng, raw) if rng.random() < 0.4 else wirefault.token_faults(rng, raw)) if wirefault.is_text(raw) and rng.random() < 0.7 else \
                wirefault.gen_faults(rng, raw, max_faults=1)
            return ['mutated', path, raw.hex(), faults]
    if roll < 0.6:
        return ['corpus', rng.choice(paths), rng.randrange(64)]
    if roll < 0.9:
        return ['factory', rng.choice(c13.FACTORY_SUBJECTS), rng.getrandbits(48)]
    return ['default', rng.choice(sorted(c13._attrs_classes()))]  # pylint: disable=protected-access


_SYNTH_CLASS = None


def _synth_class():
    """A report object as an analysis front-end would define it: a Serializable attrs class whose fields hold
    library values in every container the renderer dispatches on (dict keyed by enum / int / str, set, list,
    bytes, datetime, timedelta, None, non-ASCII text, IP network, URL, nested library objects)."""
    global _SYNTH_CLASS  # pylint: disable=global-statement
    if _SYNTH_CLASS is None:
        from cryptoparser.common.base import Serializable

        @attr.s
        class SynthReport(Serializable):  # pylint: disable=too-few-public-methods
            by_enum = attr.ib()
            by_int = attr.ib()
            by_str = attr.ib()
            members = attr.ib()
            items = attr.ib()
            raw = attr.ib()
            when = attr.ib()
            span = attr.ib()
            nothing = attr.ib()
            text = attr.ib()
            network = attr.ib()
            nested = attr.ib()

        _SYNTH_CLASS = SynthReport
    return _SYNTH_CLASS


def _build_synth(seed, permute=False):
    import datetime
    import ipaddress
    from cryptoparser.tls.version import TlsVersion, TlsProtocolVersion
    from cryptoparser.tls.subprotocol import TlsAlertDescription
    rng = _random.Random(seed)
    versions = rng.sample(list(TlsVersion), rng.randrange(1, 5))
    alerts = rng.sample(list(TlsAlertDescription), rng.randrange(0, 5))
    nested = None
    paths = corpus.class_paths()
    for _ in range(4):
        seeds = corpus.objects(rng.choice(paths))
        if seeds:
            nested = seeds[rng.randrange(len(seeds))][1]
            break
    def ordered(pairs):
        # equal dicts / sets, built in the opposite insertion order when permute is set
        pairs = list(dict(pairs).items())
        return dict(reversed(pairs)) if permute else dict(pairs)

    return _synth_class()(
        by_enum=ordered((version, rng.choice((True, False, None, 3, 'x'))) for version in versions),
        by_int=ordered((rng.randrange(1000), 'v') for _ in range(rng.randrange(0, 4))),
        by_str=ordered((rng.choice(('b', 'a', 'zeta', 'Alpha')), rng.randrange(10)) for _ in range(rng.randrange(0, 4))),
        members=set(reversed(alerts)) if permute else set(alerts),
        items=[TlsProtocolVersion(version) for version in versions],
        raw=rng.choice((b'', b'\x00\xff', bytearray(b'ab'))),
        when=rng.choice((None, datetime.datetime(2024, 1, 15, 12, 0, 0), datetime.datetime(1970, 1, 1, tzinfo=datetime.timezone.utc))),
        span=datetime.timedelta(seconds=rng.randrange(100000)),
        nothing=None,
        text=rng.choice(('plain', u'\u00e1rv\u00edzt\u0171r\u0151', '', 'line\nbreak', '* not a bullet')),
        network=rng.choice((ipaddress.ip_network('192.0.2.0/24'), ipaddress.ip_network('2001:db8::/32'))),
        nested=nested,
    )


def _build(spec, permute=False):
    if spec[0] == 'synth':
        return _build_synth(spec[1], permute)
    if spec[0] == 'mutated':
        from simverif import wire
        cls = corpus.resolve(spec[1])
        try:
            return cls.parse_immutable(wire.apply_faults(bytes.fromhex(spec[2]), spec[3]))[0]
        except Exception:  # the mutated input is rejected: no subject  # pylint: disable=broad-except
            return None
    try:
        return c13._build_subject(spec)  # pylint: disable=protected-access
    except (core.HarnessError, core.RunTimeout):
        raise
    except Exception:  # not constructible with defaults only  # pylint: disable=broad-except
        return None


def serialise(obj):
    """{'json': text or ('raised', type), 'md': ...}; never raises."""
    out = {}
    try:
        out['json'] = obj.as_json() if hasattr(obj, 'as_json') else json.dumps(obj)
    except (core.RunTimeout, KeyboardInterrupt, SystemExit):
        raise
    except BaseException as exc:  # pylint: disable=broad-except
        out['json'] = {'raised': type(exc).__name__, 'msg': str(exc)[:160]}
    if hasattr(obj, 'as_markdown'):
        try:
            out['md'] = obj.as_markdown()
        except (core.RunTimeout, KeyboardInterrupt, SystemExit):
            raise
        except BaseException as exc:  # pylint: disable=broad-except
            out['md'] = {'raised': type(exc).__name__, 'msg': str(exc)[:160]}
        if not isinstance(out['md'], (str, dict)):
            out['md'] = {'not_text': type(out['md']).__name__, 'repr': repr(out['md'])[:120]}
    if not isinstance(out['json'], (str, dict)):
        out['json'] = {'not_text': type(out['json']).__name__, 'repr': repr(out['json'])[:120]}
    return out


import re as _re

_MD_LINE = _re.compile(r'^( *)(\* |\d+\.)(.*)$')


def _markdown_structure_problem(text):
    """Structural well-formedness of the rendered report: an entry that announces a nested value ("* Key:" or a
    bare list number) must be followed by a line that is indented deeper, and indentation only ever deepens
    right after such an entry."""
    lines = [line for line in text.split('\n') if line.strip()]
    for idx, line in enumerate(lines):
        match = _MD_LINE.match(line)
        if not match:
            continue
        indent, _, rest = match.groups()
        opens = rest.rstrip().endswith(':') and rest.count(': ') == 0 or rest.strip() == ''
        following = lines[idx + 1] if idx + 1 < len(lines) else None
        next_match = _MD_LINE.match(following) if following is not None else None
        if opens:
            if following is None:
                return 'entry %r announces a nested value but nothing follows' % line.strip()
            if next_match is not None and len(next_match.group(1)) <= len(indent):
                return 'entry %r announces a nested value but the next line %r is not indented deeper' % (
                    line.strip()[:60], following.strip()[:60])
    return None


def _json_composition_problem(obj, text):
    """The JSON of a list-valued field is the list of the JSONs of its items: a value has one defined rendering
    wherever it appears."""
    from cryptoparser.common.base import ArrayBase, Serializable
    if not attr.has(type(obj)):
        return None
    own_asdict = getattr(type(obj), '_asdict', None)
    if own_asdict is not None and own_asdict is not Serializable._asdict:  # pylint: disable=protected-access
        return None     # the class defines its own document layout
    try:
        document = json.loads(text)
    except ValueError:
        return None
    if not isinstance(document, dict):
        return None
    for field in attr.fields(type(obj)):
        key = field.name
        value = getattr(obj, key, None)
        if key.startswith('_') or key not in document or not isinstance(value, (list, tuple, ArrayBase)):
            continue
        rendered = document[key]
        if not isinstance(rendered, list) or len(rendered) != len(value):
            continue
        for index, item in enumerate(value):
            try:
                # the library's own rendering of the item on its own (json.dumps would print an IntEnum as a number
                # without ever consulting the library)
                alone = json.loads(json.dumps(Serializable._json_traverse(item, Serializable._json_result)))  # pylint: disable=protected-access
            except Exception:  # pylint: disable=broad-except
                break
            if alone != rendered[index]:
                return 'field %s item %d renders as %s inside the object and as %s alone' % (
                    key, index, json.dumps(rendered[index])[:80], json.dumps(alone)[:80])
    return None


def _reject_constant(token):
    raise ValueError('%s is not a JSON value' % token)


def _wellformed(res, name, out, obj=None, benign=False):
    ok = True
    text = out['json']
    if not isinstance(text, str):
        if 'raised' in text:
            res.violation((PROPERTY, 'json-failed', name, text['raised']), 'JSON serialisation succeeds',
                          '%s: %s' % (text['raised'], text['msg']))
        else:
            res.violation((PROPERTY, 'json-not-text', name, text['not_text']), 'JSON serialisation yields text', text['repr'])
        ok = False
    else:
        try:
            json.loads(text, parse_constant=_reject_constant)      # NaN / Infinity are not JSON (RFC 8259, section 6)
        except ValueError as exc:
            res.violation((PROPERTY, 'json-malformed', name), 'a standard JSON parser accepts the document',
                          '%s in %s' % (exc, text[:200]))
            ok = False
    if 'md' in out:
        text = out['md']
        if isinstance(text, dict) and 'raised' in text:
            res.violation((PROPERTY, 'markdown-failed', name, text['raised']), 'Markdown serialisation succeeds',
                          '%s: %s' % (text['raised'], text['msg']))
            ok = False
        elif not isinstance(text, str):
            res.violation((PROPERTY, 'markdown-not-text', name, text['not_text']), 'Markdown serialisation yields text',
                          'as_markdown() returned %s' % text['repr'])
            ok = False
        elif benign:
            # (only for subjects whose values come from valid seeds: the renderer does not escape values, so a
            # value that itself ends with a colon would read like an entry announcing a nested value)
            problem = _markdown_structure_problem(text)
            if problem:
                res.violation((PROPERTY, 'markdown-structure', name), 'Markdown serialisation yields a well-formed nested list',
                              problem)
                ok = False
    if ok and obj is not None and isinstance(out['json'], str):
        problem = _json_composition_problem(obj, out['json'])
        if problem:
            res.violation((PROPERTY, 'json-not-compositional', name), 'every value has one defined rendering', problem)
            ok = False
    return ok


# ---------------------------------------------------------------- set / dict valued fields

_SET_SITES = None


def set_field_sites():
    """(class path, field name) of attrs fields that hold a set in some parsed corpus object."""
    global _SET_SITES  # pylint: disable=global-statement
    if _SET_SITES is None:
        sites = []
        for path in corpus.class_paths():
            for _, obj in corpus.objects(path):
                if not attr.has(type(obj)):
                    continue
                for field in attr.fields(type(obj)):
                    value = getattr(obj, field.name, None)
                    if isinstance(value, (set, frozenset)) or (type(value) is dict):  # pylint: disable=unidiomatic-typecheck
                        site = (path, field.name)
                        if site not in sites:
                            sites.append(site)
        _SET_SITES = sites
    return _SET_SITES


_FIELD_GROUPS = None


def shared_field_groups():
    """Lists of corpus class paths whose (attrs or _asdict) field names overlap: [[path, path, ...], ...]."""
    global _FIELD_GROUPS  # pylint: disable=global-statement
    if _FIELD_GROUPS is None:
        by_name = {}
        for path in corpus.class_paths():
            seeds = corpus.objects(path)
            if not seeds:
                continue
            obj = seeds[0][1]
            names = set()
            if attr.has(type(obj)):
                names.update(f.name for f in attr.fields(type(obj)) if not f.name.startswith('_'))
            try:
                as_dict = obj._asdict() if hasattr(obj, '_asdict') else None  # pylint: disable=protected-access
                if isinstance(as_dict, dict):
                    names.update(k for k in as_dict if isinstance(k, str))
            except Exception:  # pylint: disable=broad-except
                pass
            for name in names:
                by_name.setdefault(name, []).append(path)
        _FIELD_GROUPS = [sorted(set(paths)) for name, paths in sorted(by_name.items()) if len(set(paths)) >= 2]
    return _FIELD_GROUPS


def _members_for(path, field, value):
    """All members of the enum the set holds (so that colliding members can be chosen)."""
    import enum
    candidates = [value] + [getattr(obj, field, ()) for _, obj in corpus.objects(path)]
    for candidate in candidates:
        for item in candidate or ():
            if isinstance(item, enum.Enum):
                return list(type(item))
    return list(value)


# ---------------------------------------------------------------- generation

def generate(rng, index, tier, extra):  # pylint: disable=unused-argument
    phase = (extra or {}).get('phase', 'history')
    if phase == 'accepted':
        seeds = accepted_sweep_list()
        path, hexdata = seeds[index % len(seeds)]
        if isinstance(hexdata, list):
            return {'kind': 'accsweep', 'cls': path, 'hex': hexdata[0], 'also': hexdata[1:], 'asis_only': True}
        return {'kind': 'accsweep', 'cls': path, 'hex': hexdata, 'cap': 800 if tier == 'quick' else None}
    if phase == 'hashseed':
        return {'kind': 'hashseed', 'subject': hash_subjects()[index], 'seeds': list(HASH_SEEDS[tier])}
    roll = rng.random()
    sites = set_field_sites()
    if roll < 0.2 and sites:
        path, field = rng.choice(sites)
        return {'kind': 'setorder', 'cls': path, 'seed': rng.randrange(16), 'field': field,
                'count': rng.choice((2, 3, 4, 6)), 'perm': rng.getrandbits(32), 'pick': rng.getrandbits(32)}
    if roll < 0.4:
        subjects = [_spec_choices(rng) for _ in range(rng.choice((1, 2, 3)))]
        groups = shared_field_groups()
        if groups and rng.random() < 0.6:
            # two classes that share a field name: residual per-name state would show between them
            first, second = rng.sample(groups[rng.randrange(len(groups))], 2)
            subjects = [['corpus', first, rng.randrange(64)], ['corpus', second, rng.randrange(64)]] + subjects[:1]
            rng.shuffle(subjects)
        passes = rng.choice((['default'], ['tag'], ['default', 'tag'], ['tag', 'default'], ['default', 'tag', 'default']))
        return {'kind': 'enchistory', 'subjects': subjects, 'passes': passes}
    subjects = [_spec_choices(rng) for _ in range(rng.choice((2, 3, 4, 6, 8)))]
    order2 = list(range(len(subjects)))
    rng.shuffle(order2)
    return {'kind': 'history', 'subjects': subjects, 'order2': order2,
            'encoder': rng.choice(('default', 'default', 'tag')),
            # the machine's time zone is part of the environment the output must not depend on
            'tz': rng.choice((None, None, None, 'Asia/Kolkata', 'America/St_Johns', 'Pacific/Kiritimati', 'Europe/Berlin'))}


# ---------------------------------------------------------------- execution

def needs_isolation(doc):
    # everything that renders runs in a forked child: rendering may leave class-level state behind, which must
    # not leak from one run into the next ('enchistory' forks its own children, 'hashseed' spawns interpreters)
    return doc['kind'] in ('history', 'setorder', 'accsweep')


def execute(doc):
    res = core.Result()
    kind = doc['kind']
    if kind == 'history':
        _exec_history(doc, res)
    elif kind == 'setorder':
        _exec_setorder(doc, res)
    elif kind == 'hashseed':
        _exec_hashseed(doc, res)
    elif kind == 'hashtable':
        _exec_hashtable(doc, res)
    elif kind == 'accsweep':
        _exec_accsweep(doc, res)
    elif kind == 'enchistory':
        _exec_enchistory(doc, res)
    else:
        raise core.HarnessError('unknown schedule kind %r' % kind)
    return res


_ACCEPTED_SWEEP = None
NUMBER_TOKENS = (b'1e999', b'-1e999', b'NaN', b'Infinity', b'-Infinity', b'0.5', b'1.0000000000000002', b'1e-999', b'-0', b'0x10')
NUMBER_SWEEP = (0, 1, 2, 7, 8, 9, 15, 16, 17, 24, 31, 32, 33, 63, 64, 65, 100, 120, 127, 128, 129, 255, 256, 65535)


def accepted_sweep_list():
    global _ACCEPTED_SWEEP  # pylint: disable=global-statement
    if _ACCEPTED_SWEEP is None:
        out = []
        for path in corpus.class_paths():
            cls = corpus.resolve(path)
            seeds = corpus.accepted(path)[:4]
            derived = [raw for raw in corpus.variants(path) if raw not in seeds]
            seeds += derived[:2] + [raw for raw in derived[2:][-4:]]     # edited fields; emptied / filled fields, other zones
            for raw in seeds:
                if 4 <= len(raw) <= 8192:
                    out.append((path, raw.hex()))
            # every other derived variant: judged as it is (it is a valid input), without the fills
            rest = [raw.hex() for raw in derived if raw not in seeds and 1 <= len(raw) <= 8192][:24]
            if rest:
                out.append((path, rest))
        _ACCEPTED_SWEEP = out
    return _ACCEPTED_SWEEP


def _value_spans(raw):
    from simverif import wirefault
    if not wirefault.is_text(raw):
        return wirefault.length_prefixed_spans(raw, limit=32)
    spans = []
    start = 0
    for idx, byte in enumerate(raw + b';'):
        if byte in b':=;, \r\n"':
            if idx - start >= 2:
                spans.append((start, idx - start))
            start = idx + 1
    return spans[:32]


def _exec_accsweep(doc, res):
    """Every value of an accepted input (length-prefixed span of a binary input, token of a text input) replaced,
    one at a time, by text of other alphabets and by integer boundary values of the same length; whatever the
    parser still accepts must serialise: totally and well-formed."""
    from simverif import wirefault
    if doc.get('asis_only') and doc.get('also'):
        for hexdata in [doc['hex']] + list(doc['also']):
            _exec_accsweep({'kind': 'accsweep', 'cls': doc['cls'], 'hex': hexdata, 'asis_only': True}, res)
            if res.violations:
                for violation in res.violations:
                    violation.setdefault('input', hexdata)
                break
        return
    cls = corpus.resolve(doc['cls']) or core.get_class(doc['cls'])
    raw = bytes.fromhex(doc['hex'])
    only = doc.get('only')
    if doc.get('asis_only'):
        only = [[0, 0, 'asis']]
    if only is not None:
        plan = only
    else:
        plan = [[start, length, name] for start, length in _value_spans(raw)
                for name in sorted(wirefault.TEXT_FILLS) + ['zero', 'ones']]
        # ... every number of a text input replaced by small numbers around the powers of two (prefix lengths, ages,
        # percentages): still a plain valid-looking input, so the round trip must serialise identically
        if wirefault.is_text(raw):
            # every token of a text input emptied (its separators stay): still a plain input
            plan += [[start, length, 'empty'] for start, length in _value_spans(raw)]
            import re
            for match in list(re.finditer(rb'(?<![0-9A-Za-z.:])\d{1,9}(?:\.\d{1,6})?(?![0-9A-Za-z.:])', raw))[:12]:
                plan += [[match.start(), match.end() - match.start(), 'n%d' % number] for number in NUMBER_SWEEP]
                plan += [[match.start(), match.end() - match.start(), 't' + token.hex()] for token in NUMBER_TOKENS]
        # ... and every single octet overwritten (all five values for small inputs, two for large ones)
        values = ('b00', 'b01', 'b7f', 'b80', 'bff') if len(raw) <= 600 else ('b01', 'bff')
        plan += [[offset, 1, name] for offset in range(len(raw)) for name in values]
    accepted = 0
    if only is None:
        if doc.get('cap') and len(plan) > doc['cap']:
            step = len(plan) / float(doc['cap'])
            plan = [plan[int(k * step)] for k in range(doc['cap'])]
        plan = [[0, 0, 'asis']] + plan      # the valid input itself (a committed seed or a derived variant), as it is
    for start, length, name in plan:
        strict = False
        if name == 'asis':
            fill, strict = b'', True
        elif name == 'empty':
            fill = b''
        elif name.startswith('n') and name[1:].isdigit():
            fill, strict = name[1:].encode(), True
        elif name.startswith('t') and len(name) > 1 and all(c in '0123456789abcdef' for c in name[1:]):
            fill = bytes.fromhex(name[1:])
        elif name.startswith('b') and len(name) == 3:
            fill = bytes((int(name[1:], 16), ))
        else:
            fill = wirefault.TEXT_FILLS[name](length) if name in wirefault.TEXT_FILLS else (b'\x00' if name == 'zero' else b'\xff') * length
        data = raw[:start] + fill + raw[start + length:]
        if data == raw and name != 'asis':
            continue
        try:
            obj = cls.parse_immutable(data)[0]
        except (core.RunTimeout, KeyboardInterrupt, SystemExit):
            raise
        except BaseException:  # rejected (or leaking: C02's concern)  # pylint: disable=broad-except
            continue
        accepted += 1
        before = len(res.violations)
        out = serialise(obj)
        if _wellformed(res, type(obj).__name__, out):
            # ... and identically to its parse-compose round trip
            try:
                twin = type(obj).parse_exact_size(bytes(obj.compose()))
            except Exception:  # not composable standalone / not accepted back  # pylint: disable=broad-except
                twin = None
            if twin is not None and type(twin) is type(obj) and (strict or canon(twin) == canon(obj)):
                res.stats['probe.round_trip_twin_serialised'] += 1
                twin_out = serialise(twin)
                if twin_out != out:
                    which = 'json' if twin_out.get('json') != out.get('json') else 'markdown'
                    res.violation((PROPERTY, 'equal-objects-differ', type(obj).__name__, which),
                                  'an object and its parse-compose round trip produce identical output',
                                  _diff_text(out, twin_out))
        for violation in res.violations[before:]:
            violation['case'] = [start, length, name]
        if len(res.violations) > 3:
            break
    res.event('accsweep', doc['cls'], len(plan), accepted)
    res.sim_events += len(plan)
    res.stats['accepted_sweep.cases'] += len(plan)
    res.stats['accepted_sweep.accepted_and_serialised'] += accepted
    res.stats['serialisations'] += accepted
    res.sched_sig = ('accsweep', doc['cls'].rsplit('.', 1)[1], doc['hex'][:16], accepted > 0)
    res.nontrivial = accepted > 0


def _exec_history(doc, res):  # pylint: disable=too-many-branches,too-many-statements
    zone = doc.get('tz')
    if not zone:
        _exec_history_in_zone(doc, res)
        return
    import time as _time
    old = os.environ.get('TZ')
    os.environ['TZ'] = zone
    _time.tzset()
    res.stats['fault.time_zone_installed'] += 1
    try:
        _exec_history_in_zone(doc, res)
    finally:
        if old is None:
            os.environ.pop('TZ', None)
        else:
            os.environ['TZ'] = old
        _time.tzset()


def _exec_history_in_zone(doc, res):  # pylint: disable=too-many-branches,too-many-statements
    from cryptoparser.common.base import Serializable
    specs = doc['subjects']
    installed = None
    original = Serializable.__dict__['post_text_encoder']
    if doc['encoder'] == 'tag':
        installed = TagEncoder()
        Serializable.post_text_encoder = installed
    expected_encoder = installed or original
    names = []
    try:
        first = {}
        for idx, spec in enumerate(specs):
            obj = _build(spec)
            if obj is None:
                continue
            name = type(obj).__name__
            names.append(name)
            out = serialise(obj)
            res.event('serialise', idx, name, None if _volatile(spec) else _digest(out))
            res.stats['serialisations'] += 1
            if Serializable.__dict__.get('post_text_encoder') is not expected_encoder:
                res.violation((PROPERTY, 'encoder-not-restored', name),
                              'the installed text encoder is the installed one after every call',
                              'after serialising %s the class-level encoder is %r' % (
                                  name, type(Serializable.__dict__.get('post_text_encoder')).__name__))
                Serializable.post_text_encoder = expected_encoder
            if not _wellformed(res, name, out, obj if doc['encoder'] == 'default' else None,
                               benign=spec[0] in ('corpus', 'factory') and doc['encoder'] == 'default'):
                continue
            first[idx] = (name, out, obj)
            # equal objects: the same object built through the constructor with declared (enum) field types
            typed = None if _volatile(spec) else _typed_rebuild(obj)
            if typed is not None:
                try:
                    same = bool(typed == obj) and bool(obj == typed)
                except Exception:  # pylint: disable=broad-except
                    same = False
                if same and type(typed).__eq__ is not object.__eq__:
                    res.stats['probe.constructed_equal_object_serialised'] += 1
                    typed_out = serialise(typed)
                    if typed_out != out:
                        which = 'json' if typed_out.get('json') != out.get('json') else 'markdown'
                        res.violation((PROPERTY, 'equal-objects-differ', name, 'constructed-' + which),
                                      'equal objects produce identical output',
                                      'parsed object vs an equal object built through the constructor: %s' % _diff_text(typed_out, out))
            # equal objects: the compose -> parse round trip of this object
            try:
                composed = bytes(obj.compose())
                twin = type(obj).parse_exact_size(composed)
            except Exception:  # not composable standalone / variant classes  # pylint: disable=broad-except
                twin = None
            # "equal objects - in particular an object and its parse-compose round trip - produce identical
            # output": for subjects from valid inputs the round trip is compared whether or not the library (or
            # canon) calls the two equal; for subjects parsed from mutated inputs (where the pinned tree's round
            # trip is not the identity: URL fragments, stray quotes) only when they are equal
            strict = specs[idx][0] in ('corpus', 'factory')
            if twin is not None and type(twin) is type(obj) and (strict or canon(twin) == canon(obj)):
                res.stats['probe.round_trip_twin_serialised'] += 1
                if canon(twin) != canon(obj):
                    res.stats['probe.round_trip_twin_not_canon_equal'] += 1
                twin_out = serialise(twin)
                if twin_out != out:
                    which = 'json' if twin_out.get('json') != out.get('json') else 'markdown'
                    res.violation((PROPERTY, 'equal-objects-differ', name, which),
                                  'an object and its parse-compose round trip produce identical output',
                                  _diff_text(out, twin_out))
        # an edited object and an equal object built afresh through the constructor
        for idx in sorted(first):
            name, _, obj = first[idx]
            if _volatile(specs[idx]):
                continue
            try:
                import copy
                obj = copy.deepcopy(obj)     # never edit an object that a later pass may build again from a pool
            except Exception:  # pylint: disable=broad-except
                continue
            edited = _edit_public_field(obj, skip=idx % 3)
            if not edited:
                continue
            try:
                fresh = attr.evolve(obj)
            except Exception:  # the edited value is not accepted by the constructor  # pylint: disable=broad-except
                continue
            if canon(fresh) != canon(obj):
                # the library's own equality decides (instance attributes outside the declared fields, such as
                # memoised results, are not part of it)
                try:
                    equal = type(obj).__eq__ is not object.__eq__ and bool(fresh == obj) and bool(obj == fresh)
                except Exception:  # pylint: disable=broad-except
                    equal = False
                if not equal:
                    continue
            res.stats['probe.edited_object_vs_fresh_equal_object'] += 1
            out_edited, out_fresh = serialise(obj), serialise(fresh)
            res.event('edited', idx, name, edited, _digest(out_fresh))
            if out_edited != out_fresh:
                which = 'json' if out_edited.get('json') != out_fresh.get('json') else 'markdown'
                res.violation((PROPERTY, 'equal-objects-differ', name, 'edited-' + which),
                              'equal objects produce identical output',
                              'after assigning %s: edited object vs an equal object built by the constructor: %s' % (
                                  edited, _diff_text(out_fresh, out_edited)))
        # second pass: fresh copies, another order
        for idx in doc['order2']:
            if idx not in first:
                continue
            name, out, _ = first[idx]
            obj = _build(specs[idx], permute=True)
            if obj is None:
                continue
            again = serialise(obj)
            res.event('serialise-again', idx, name, None if _volatile(specs[idx]) else _digest(again))
            res.stats['serialisations'] += 1
            if _volatile(specs[idx]):
                continue
            if again != out:
                which = 'json' if again.get('json') != out.get('json') else 'markdown'
                res.violation((PROPERTY, 'depends-on-serialisation-order', name, which),
                              'output is independent of which objects were serialised before',
                              _diff_text(out, again))
    finally:
        Serializable.post_text_encoder = original
    reordered = [i for i in doc['order2'] if i in first] != sorted(first)
    res.sched_sig = ('history', tuple(names)[:8], doc['encoder'], reordered)
    res.nontrivial = reordered or doc['encoder'] != 'default'
    res.stats['runs.history.' + doc['encoder']] += 1


def _enum_of_validator(validator):
    """The Enum class an attrs validator restricts a field to (in_(Enum) / instance_of(Enum) / optional / and_)."""
    import enum
    if validator is None:
        return None
    for name in ('options', 'type'):
        target = getattr(validator, name, None)
        if isinstance(target, type) and issubclass(target, enum.Enum):
            return target
    inner = getattr(validator, 'validator', None)
    if inner is not None:
        return _enum_of_validator(inner)
    for inner in getattr(validator, '_validators', ()) or ():
        found = _enum_of_validator(inner)
        if found is not None:
            return found
    return None


def _typed_rebuild(obj):
    """An equal object built the way a caller constructs it: through the constructor, with enum members where the
    class declares an enum-typed field (a parser that leaves the bare integer there produces an object that
    compares equal but must also serialise identically).  None when nothing can be rebuilt."""
    import enum
    if not attr.has(type(obj)):
        return None
    kwargs = {}
    for field in attr.fields(type(obj)):
        if not field.init:
            continue
        value = getattr(obj, field.name)
        enum_class = _enum_of_validator(field.validator)
        if enum_class is not None and not isinstance(value, enum.Enum) and not isinstance(value, bool):
            try:
                value = enum_class(value)
            except ValueError:
                pass
        kwargs[field.name.lstrip('_')] = value
    try:
        return type(obj)(**kwargs)
    except Exception:  # pylint: disable=broad-except
        return None


def _edit_public_field(obj, skip=0):
    """Assign another valid value to one public attrs field (what a caller editing a parsed message does).
    Returns the field name or None."""
    import enum
    if not attr.has(type(obj)):
        return None
    candidates = []
    for field in attr.fields(type(obj)):
        if field.name.startswith('_') or not field.init:
            continue
        value = getattr(obj, field.name, None)
        if isinstance(value, (set, frozenset)) and value is not None:
            members = None
            for item in value:
                if isinstance(item, enum.Enum):
                    members = list(type(item))
                    break
            if members:
                missing = [m for m in members if m not in value]
                new = set(value)
                if missing:
                    new.add(missing[0])
                else:
                    new.discard(members[0])
                candidates.append((field.name, new))
            continue
        other = c13._other_value(value)  # pylint: disable=protected-access
        if other is not None:
            candidates.append((field.name, other[0]))
    for name, new in candidates[skip:]:
        try:
            setattr(obj, name, new)
            return name
        except Exception:  # pylint: disable=broad-except
            continue
    return None


def _render_sequence(specs, passes):
    """Runs in a forked child: serialise all subjects once per pass under that pass's encoder; returns the
    outputs of the last pass {index: out}."""
    from cryptoparser.common.base import Serializable
    original = Serializable.__dict__['post_text_encoder']
    outs = {}
    for number, encoder in enumerate(passes):
        Serializable.post_text_encoder = TagEncoder() if encoder == 'tag' else original
        for idx, spec in enumerate(specs):
            obj = _build(spec)
            if obj is None:
                continue
            out = serialise(obj)
            if number == len(passes) - 1:
                outs[idx] = (type(obj).__name__, out)
    return outs


def _exec_enchistory(doc, res):
    """The same subjects rendered under encoder E in a fresh process image, and rendered under E after earlier
    passes under other encoders: what was serialised before (and under which encoder) must not matter."""
    specs = doc['subjects']
    passes = doc['passes']
    # control: every subject rendered alone, each in its own pristine process image
    control = {}
    for idx, spec in enumerate(specs):
        alone = core.call_isolated(_render_sequence, [spec], passes[-1:])
        if 0 in alone:
            control[idx] = alone[0]
    later = core.call_isolated(_render_sequence, specs, passes)
    res.stats['fault.encoder_switched_between_passes'] += len(passes) - 1
    names = []
    for idx in sorted(control):
        name, out = control[idx]
        names.append(name)
        res.event('enchistory', idx, name, None if _volatile(specs[idx]) else _digest(out))
        res.stats['serialisations'] += len(passes) + 1
        _wellformed(res, name, out)
        if _volatile(specs[idx]) or idx not in later:
            continue
        if later[idx][1] != out:
            which = 'json' if later[idx][1].get('json') != out.get('json') else 'markdown'
            res.violation((PROPERTY, 'depends-on-earlier-serialisation', name, which),
                          'output is independent of which objects were serialised before (and under which encoder)',
                          'passes %s: %s' % (passes, _diff_text(out, later[idx][1])))
    res.sched_sig = ('enchistory', tuple(names)[:6], tuple(passes))
    res.nontrivial = True
    res.stats['runs.enchistory'] += 1


def _volatile(spec):
    """Default-constructed subjects carry clock / random defaults: two fresh copies differ by design."""
    return spec[0] == 'default' or (spec[0] == 'factory' and False)


def _digest(out):
    return hashlib.sha256(repr(sorted(out.items())).encode('utf-8', 'backslashreplace')).hexdigest()[:12]


def _diff_text(left, right):
    for key in ('json', 'md'):
        a, b = left.get(key), right.get(key)
        if a != b:
            if isinstance(a, str) and isinstance(b, str):
                pos = next((i for i, (x, y) in enumerate(zip(a, b)) if x != y), min(len(a), len(b)))
                return '%s differs at offset %d: ...%s... vs ...%s...' % (key, pos, a[max(0, pos - 40):pos + 60], b[max(0, pos - 40):pos + 60])
            return '%s: %r vs %r' % (key, a if not isinstance(a, str) else a[:80], b if not isinstance(b, str) else b[:80])
    return 'no difference'


def _exec_setorder(doc, res):
    path, field = doc['cls'], doc['field']
    seeds = corpus.objects(path)
    if not seeds:
        res.sched_sig = ('setorder', path, 'no-seed')
        return
    raw, base = seeds[doc['seed'] % len(seeds)]
    name = type(base).__name__
    value = getattr(base, field)
    rng = _random.Random(doc['pick'])
    if isinstance(value, dict):
        items = list(value.items())
        if len(items) < 2:
            res.sched_sig = ('setorder', name, field, 'too-small')
            return
        members = items
    else:
        pool = _members_for(path, field, value)
        if len(pool) < 2:
            res.sched_sig = ('setorder', name, field, 'too-small')
            return
        # members that collide in a small hash table (same value modulo 8) make iteration order depend on insertion order
        groups = {}
        for member in pool:
            try:
                groups.setdefault(int(member) % 8, []).append(member)
            except (TypeError, ValueError):
                groups.setdefault(0, []).append(member)
        group = max(groups.values(), key=len)
        source = group if len(group) >= 2 and rng.random() < 0.7 else pool
        members = rng.sample(source, min(len(source), doc['count']))
    if len(members) < 2:
        res.sched_sig = ('setorder', name, field, 'too-small')
        return
    perm = list(members)
    _random.Random(doc['perm']).shuffle(perm)
    builder = (lambda seq: dict(seq)) if isinstance(value, dict) else (lambda seq: set(seq))
    try:
        first = attr.evolve(base, **{field.lstrip('_'): builder(members)})
        second = attr.evolve(base, **{field.lstrip('_'): builder(perm)})
    except Exception as exc:  # the class refuses this member combination  # pylint: disable=broad-except
        res.note(name, field, 'refused', type(exc).__name__)
        res.sched_sig = ('setorder', name, field, 'refused')
        res.stats['setorder.combination_refused'] += 1
        return
    out1, out2 = serialise(first), serialise(second)
    res.event('setorder', name, field, _digest(out1), _digest(out2))
    res.stats['fault.insertion_order_permuted'] += 1
    _wellformed(res, name, out1)
    if out1 != out2:
        which = 'json' if out1.get('json') != out2.get('json') else 'markdown'
        res.violation((PROPERTY, 'depends-on-set-insertion-order', name, field, which),
                      'equal objects produce identical output independent of set iteration order',
                      _diff_text(out1, out2))
    else:
        # ... and identical to the parse -> compose -> parse round trip's
        try:
            twin = type(base).parse_exact_size(bytes(first.compose()))
        except Exception:  # pylint: disable=broad-except
            twin = None
        if twin is not None and canon(twin) == canon(first):
            res.stats['probe.round_trip_twin_serialised'] += 1
            out3 = serialise(twin)
            if out3 != out1:
                which = 'json' if out3.get('json') != out1.get('json') else 'markdown'
                res.violation((PROPERTY, 'equal-objects-differ', name, which),
                              'an object and its parse-compose round trip produce identical output', _diff_text(out1, out3))
    res.sched_sig = ('setorder', name, field, len(members), members != perm)
    res.nontrivial = members != perm
    res.stats['runs.setorder'] += 1


# ---------------------------------------------------------------- hash randomisation (fresh interpreters)

_HASH_SUBJECTS = None


def hash_subjects():
    global _HASH_SUBJECTS  # pylint: disable=global-statement
    if _HASH_SUBJECTS is None:
        subjects = []
        for path in corpus.class_paths():
            for idx in range(len(corpus.accepted(path))):
                subjects.append(['corpus', path, idx])
        rng = _random.Random(20240115)
        for name in c13.FACTORY_SUBJECTS:
            for _ in range(6):
                subjects.append(['factory', name, rng.getrandbits(48)])
        for _ in range(60):
            subjects.append(['synth', rng.getrandbits(48)])
        _HASH_SUBJECTS = subjects
    return _HASH_SUBJECTS


def aux(name, argv):
    """Sub-commands run in fresh interpreters: 'hash-table' prints {index: digest} for all hash subjects,
    'hash-one' prints the serialisation of one subject given as JSON."""
    prepare('quick')
    if name == 'hash-table':
        table = {}
        for idx, spec in enumerate(hash_subjects()):
            obj = _build(spec)
            table[idx] = _digest(serialise(obj)) if obj is not None else 'unbuildable'
        print('HASH-TABLE ' + json.dumps(table))
        return core.EXIT_OK
    if name == 'hash-one':
        spec = json.loads(argv[0])
        obj = _build(spec)
        print('HASH-ONE ' + json.dumps(serialise(obj) if obj is not None else None))
        return core.EXIT_OK
    raise core.HarnessError('unknown aux command %r' % name)


def _spawn(hash_seed, args):
    env = dict(os.environ)
    env['PYTHONHASHSEED'] = str(hash_seed)
    proc = subprocess.run([sys.executable, '-B', os.path.join(core.VERIF_DIR, 'simverif', 'main.py'), PROPERTY] + args,
                          env=env, stdout=subprocess.PIPE, stderr=subprocess.PIPE, timeout=900, check=False)
    if proc.returncode != 0:
        raise core.HarnessError('hash-seed interpreter failed: %s' % proc.stderr.decode()[-1500:])
    return proc.stdout.decode()


def _exec_hashtable(doc, res):
    """Replayable form of a difference that only shows inside the whole table: all hash subjects are serialised
    one after the other in a fresh interpreter per hash seed, a few times over; all tables must be identical."""
    tables = []
    for _ in range(int(doc.get('tries', 3))):
        for seed in doc['seeds'][:2]:
            text = _spawn(seed, ['--aux', 'hash-table'])
            line = [l for l in text.splitlines() if l.startswith('HASH-TABLE ')][-1]
            tables.append((seed, json.loads(line[len('HASH-TABLE '):])))
            res.stats['fault.fresh_interpreter_other_hash_seed'] += 1
            differing = sorted(int(key) for key in tables[0][1] if tables[-1][1].get(key) != tables[0][1].get(key))
            if differing:
                subjects = hash_subjects()
                names = [str(subjects[i][1]).rsplit('.', 1)[-1] for i in differing[:4] if i < len(subjects)]
                res.violation((PROPERTY, 'depends-on-earlier-serialisation', 'hash-table'),
                              'output is independent of which objects were serialised before and of the hash seed',
                              'fresh interpreters that serialise the same %d subjects in the same order produce '
                              'different output for subjects %s (%s) (hash seeds %s and %s), although each of them '
                              'alone serialises identically under both seeds' % (
                                  len(tables[0][1]), differing[:4], ', '.join(names), tables[0][0], seed))
                break
        if res.violations:
            break
    res.sched_sig = ('hashtable', len(tables))
    res.nontrivial = True


def _exec_hashseed(doc, res):
    """Replayable form: one subject under the listed hash seeds, each in a fresh interpreter."""
    outs = []
    for seed in doc['seeds'][:4]:
        text = _spawn(seed, ['--aux', 'hash-one', json.dumps(doc['subject'])])
        line = [l for l in text.splitlines() if l.startswith('HASH-ONE ')][-1]
        outs.append(json.loads(line[len('HASH-ONE '):]))
        res.stats['fault.fresh_interpreter_other_hash_seed'] += 1
    name = str(doc['subject'][1]).rsplit('.', 1)[-1] if doc['subject'][0] != 'synth' else 'SynthReport'
    for other in outs[1:]:
        if other != outs[0]:
            which = 'json' if (other or {}).get('json') != (outs[0] or {}).get('json') else 'markdown'
            res.violation((PROPERTY, 'depends-on-hash-seed', name, which),
                          'output is independent of set iteration order (hash randomisation)',
                          _diff_text(outs[0] or {}, other or {}))
            break
    res.sched_sig = ('hashseed', tuple(doc['subject'][:2]))
    res.nontrivial = True
    res.sim_events += len(outs)


def hash_phase(tier, seed):
    """All hash subjects under every hash seed of the tier: one interpreter per seed, tables compared."""
    began = time.time()
    batch = core.Batch()
    tables = {}
    from concurrent.futures import ThreadPoolExecutor
    seeds = HASH_SEEDS[tier]
    with ThreadPoolExecutor(max_workers=min(len(seeds), core.jobs())) as pool:
        for hash_seed, text in zip(seeds, pool.map(lambda s: _spawn(s, ['--aux', 'hash-table']), seeds)):
            line = [l for l in text.splitlines() if l.startswith('HASH-TABLE ')][-1]
            tables[hash_seed] = json.loads(line[len('HASH-TABLE '):])
    subjects = hash_subjects()
    reference = tables[seeds[0]]
    batch.runs = len(subjects)
    batch.sim_events = len(subjects) * len(seeds)
    batch.stats['fault.fresh_interpreter_other_hash_seed'] = len(seeds)
    batch.stats['hashseed.subjects'] = len(subjects)
    batch.stats['hashseed.serialisations'] = len(subjects) * len(seeds)
    me = __import__('simverif.props.c14', fromlist=['x'])
    for idx, spec in enumerate(subjects):
        key = str(idx)
        batch.sched.add(hash(('hashseed', idx)))
        batch.sched_nontrivial.add(hash(('hashseed', idx)))
        differing = [s for s in seeds[1:] if tables[s].get(key) != reference.get(key)]
        if differing:
            doc = {'kind': 'hashseed', 'subject': spec, 'seeds': [seeds[0], differing[0]]}
            result = core.guarded_execute(me, doc)
            for v in result.violations:
                batch.viol_count[v['sig']] += 1
                batch.viol.setdefault(v['sig'], {'sig': v['sig'], 'clause': v['clause'], 'detail': v['detail'],
                                                 'index': idx, 'run_seed': core.run_seed(seed, PROPERTY, idx), 'doc': doc})
            if not result.violations:
                # alone the subject agrees under both seeds: what differs depends on the subjects serialised before
                doc = {'kind': 'hashtable', 'index': idx, 'subject': spec, 'seeds': [seeds[0], differing[0]]}
                result = core.guarded_execute(me, doc)
                for v in result.violations:
                    batch.viol_count[v['sig']] += 1
                    batch.viol.setdefault(v['sig'], {'sig': v['sig'], 'clause': v['clause'], 'detail': v['detail'],
                                                     'index': idx, 'run_seed': core.run_seed(seed, PROPERTY, idx), 'doc': doc})
                if not result.violations:
                    raise core.HarnessError('hash tables differ for %r but neither the single-subject nor the '
                                            'whole-table replay reproduces it' % (spec, ))
    batch.samples.append({'index': 0, 'schedule': {'kind': 'hashseed', 'subject': subjects[0], 'seeds': list(seeds)},
                          'signature': 'hashseed'})
    batch.digests.append(int(hashlib.sha256(json.dumps(reference, sort_keys=True).encode()).hexdigest(), 16))
    batch.wall = time.time() - began
    return batch


def shrink(doc, sig, budget):
    me = __import__('simverif.props.c14', fromlist=['x'])
    doc = dict(doc)
    if doc['kind'] == 'accsweep' and doc.get('also'):
        for hexdata in [doc['hex']] + list(doc['also']):
            cand = {'kind': 'accsweep', 'cls': doc['cls'], 'hex': hexdata, 'asis_only': True}
            if core.has_sig(me, cand, sig):
                return cand
        return doc
    if doc['kind'] == 'accsweep':
        result = core.guarded_execute(me, doc)
        for violation in result.violations:
            if violation['sig'] == sig and 'case' in violation:
                cand = dict(doc, only=[violation['case']])
                if core.has_sig(me, cand, sig):
                    return cand
        return doc
    if doc['kind'] == 'history':
        def test_subjects(subjects):
            cand = dict(doc, subjects=subjects, order2=list(reversed(range(len(subjects)))))
            return bool(subjects) and core.has_sig(me, cand, sig)
        subjects = core.ddmin_list(doc['subjects'], test_subjects, budget)
        if test_subjects(subjects):
            doc['subjects'] = subjects
            doc['order2'] = list(reversed(range(len(subjects))))
    return doc


BUDGET = {'quick': (40000, 70.0), 'thorough': (800000, 900.0)}


def check(tier, seed):
    began = time.time()
    me = __import__('simverif.props.c14', fromlist=['x'])
    extra = prepare(tier)
    histories = core.history_batch(me, seed, tier, extra)      # first: this process has executed no run yet
    core.determinism_selftest(me, seed, tier, extra, count=40)
    hashed = hash_phase(tier, seed)
    n_runs, wall = BUDGET[tier]
    explore = core.run_batch(me, seed, tier, n_runs, wall, extra)
    swept = core.run_batch(me, seed, tier, len(accepted_sweep_list()), 600.0, {'phase': 'accepted'}, chunk=4)
    batch = core.merge_batches([hashed, swept, explore, histories])
    coverage = core.coverage_from_batch(
        batch, RULE,
        fault_kinds=('fresh_interpreter_other_hash_seed', 'insertion_order_permuted', 'encoder_switched_between_passes'),
        probes=('round_trip_twin_serialised', 'edited_object_vs_fresh_equal_object', 'constructed_equal_object_serialised'),
        components={
            'real': ['as_json / as_markdown / json.dumps of every corpus class, factory-built and default-constructed objects',
                     'the monkey-patched json.JSONEncoder.default', 'compose / parse for round-trip twins'],
            'simulated': ['process environment: PYTHONHASHSEED via fresh interpreters', 'construction order of set / dict fields',
                          'serialisation order, installation of a custom post_text_encoder'],
            'stubbed': ['cryptodatahub.common.key datetime.now() frozen to the simulated instant'],
        },
        extra={'hash_seeds': list(HASH_SEEDS[tier]), 'hash_subjects': len(hash_subjects()),
               'set_or_dict_valued_fields': ['%s.%s' % (p.rsplit('.', 1)[1], f) for p, f in set_field_sites()],
               'history_runs': explore.runs})
    assumptions = [
        'two fresh default-constructed objects may legitimately differ (clock / random defaults): excluded from the order clause',
        'the remaining-validity-days field of X.509 keys reads the simulated clock',
        'sampling: a clean batch is evidence, not proof',
    ]
    return core.report_and_exit(me, batch, seed, tier, coverage, assumptions, LEVEL, began)
