# -*- coding: utf-8 -*-
"""C04 - incremental reads guided by the missing-byte count reassemble the stream.

Fault-free transport; the schedule space is: which records, how the byte stream is cut into
deliveries, and the reader policy (strict: waits for exactly the reported count; eager:
retries on every delivery; ask: the transport hands over exactly what was asked for)."""

import time

from simverif import core, wire, workload
from simverif.canon import canon

PROPERTY = 'C04'
LEVEL = 'exploration'

SEGMENTATIONS = ('ask', 'dribble', 'small', 'mtu', 'header', 'few', 'whole')
C04_CHANNELS = [c for c in workload.CHANNELS if c.in_c04]
C04_STREAM_CHANNELS = [c for c in C04_CHANNELS if not c.single_unit]

RULE = (
    'one evaluation = one simulated connection: 1-8 records composed by the library (or one TLS handshake '
    'stream re-cut into record fragments), delivered by a seeded segmentation policy (%s) to a strict/eager '
    'reader loop around parse_mutable; or one prefix sweep of a record (every prefix length, each continued by '
    'the strict reader). A schedule signature is (kind, channel, record count bucket, segmentation, reader policy, '
    'set of (record index, cut position bucket header/length-field/body/boundary)); it is non-trivial when at '
    'least one cut falls strictly inside a record.' % '/'.join(SEGMENTATIONS)
)


def prepare(tier):  # pylint: disable=unused-argument
    workload.pools()
    return None


# ---------------------------------------------------------------- generation

def _cuts(rng, seg, bounds, framer_name):
    total = bounds[-1]
    if total <= 1 or seg in ('ask', 'whole'):
        return []
    if seg == 'dribble':
        if total <= 3000:
            return list(range(1, total))
        # dribble through the first 600 bytes and around every boundary, coarse elsewhere
        cuts = set(range(1, 600))
        for b in bounds:
            cuts.update(range(max(1, b - 8), min(total, b + 8)))
        cuts.update(rng.sample(range(1, total), 200))
        return sorted(c for c in cuts if 0 < c < total)
    if seg == 'small':
        cuts, pos = [], 0
        while True:
            pos += rng.randrange(1, 9)
            if pos >= total:
                break
            cuts.append(pos)
            if len(cuts) > 4000:
                break
        return cuts
    if seg == 'mtu':
        size = rng.choice((64, 536, 1448, 1460, 4096))
        return list(range(size, total, size))
    if seg == 'header':
        from simverif import framer
        hdr = framer.HEADER_SIZE.get(framer_name, 4) + 2
        starts = [0] + bounds[:-1]
        cuts = set()
        for start, end in zip(starts, bounds):
            for _ in range(rng.randrange(1, 4)):
                cuts.add(start + rng.randrange(0, hdr + 1))
            if rng.random() < 0.5:
                cuts.add(end - 1)
            if rng.random() < 0.3:
                cuts.add(end)
        return sorted(c for c in cuts if 0 < c < total)
    # 'few'
    return sorted(rng.sample(range(1, total), min(total - 1, rng.randrange(0, 8))))


def _bounds(records):
    out, pos = [], 0
    for rec in records:
        pos += len(rec)
        out.append(pos)
    return out


def generate(rng, index, tier, extra):
    try:
        return _generate(rng, index, tier, extra)
    except workload.SenderRejected as exc:
        return {'kind': 'sender-failed', 'channel': exc.channel, 'errors': exc.errors,
                'unit': exc.unit.hex() if exc.unit is not None else None}


def _generate(rng, index, tier, extra):  # pylint: disable=unused-argument
    roll = rng.random()
    discards = []
    if rng.random() < 0.01:
        # the application registers its own parsers for the Finished message (the library has none) while it reads
        return {'kind': 'registry', 'order': rng.choice(('tls-first', 'ssl3-first')), 'parse_between': rng.random() < 0.8,
                'before': rng.randrange(0, 3), 'seed': rng.getrandbits(32)}
    if roll < 0.12:
        channel = rng.choice(C04_CHANNELS)
        return {'kind': 'prefix', 'channel': channel.name, 'record': channel.make(rng, discards).hex(),
                'sender_discards': discards}
    if roll < 0.30:
        hs = [workload.handshake_message(rng, discards) for _ in range(rng.choice((1, 1, 2, 3, 4)))]
        twins = rng.random() < 0.15
        if twins:
            hs = workload.handshake_twins(rng) + (hs[:1] if rng.random() < 0.3 else [])
        total = sum(len(m) for m in hs)
        mode = rng.random()
        if mode < (0.6 if twins else 0.1) and max(len(m) for m in hs) <= 60000:
            # one handshake message per record
            frag_cuts = []
            for message in hs[:-1]:
                frag_cuts.append((frag_cuts[-1] if frag_cuts else 0) + len(message))
        elif mode < 0.2:
            frag_cuts = []                                 # several messages coalesced in one record
        elif mode < 0.4 and total > 4:
            frag_cuts = sorted(rng.sample(range(1, total), min(total - 1, rng.randrange(3, 9))))  # message spans >=3 records
        else:
            frag_cuts = sorted(rng.sample(range(1, total), min(total - 1, rng.randrange(0, 5)))) if total > 1 else []
        if frag_cuts and rng.random() < 0.1:
            frag_cuts.insert(0, frag_cuts[0])              # a zero-length fragment
        # record layer limit: fragments up to 2^16-1 bytes encode; keep them below
        pts = [0] + frag_cuts + [total]
        extra_cuts = []
        for a, b in zip(pts, pts[1:]):
            while b - a > 60000:
                a += 60000
                extra_cuts.append(a)
        frag_cuts = sorted(frag_cuts + extra_cuts)
        seg = rng.choice(SEGMENTATIONS)
        rec_total = total + 5 * (len(frag_cuts) + 1)
        rec_bounds = []
        pos = 0
        pts = [0] + frag_cuts + [total]
        for a, b in zip(pts, pts[1:]):
            pos += 5 + (b - a)
            rec_bounds.append(pos)
        cuts = 'ask' if seg == 'ask' else _cuts(rng, seg, rec_bounds, 'tls_record')
        assert rec_total == rec_bounds[-1]
        return {'kind': 'tls2', 'hs': [m.hex() for m in hs], 'frag_cuts': frag_cuts, 'seg': seg, 'cuts': cuts,
                'policy': rng.choice(('strict', 'eager')), 'policy2': rng.choice(('strict', 'eager')),
                'sender_discards': discards}
    channel = rng.choice(C04_STREAM_CHANNELS)
    records = [channel.make(rng, discards) for _ in range(rng.choice((1, 1, 2, 3, 4, 8)))]
    seg = rng.choice(SEGMENTATIONS)
    cuts = 'ask' if seg == 'ask' else _cuts(rng, seg, _bounds(records), channel.framer)
    return {'kind': 'stream', 'channel': channel.name, 'records': [r.hex() for r in records], 'seg': seg,
            'cuts': cuts, 'policy': rng.choice(('strict', 'eager')), 'sender_discards': discards}


# ---------------------------------------------------------------- execution

def _standalone(cls, raw):
    try:
        return canon(cls.parse_exact_size(raw))
    except Exception as exc:  # reported by the reader loop as 'record-rejected'
        return ('unparsable', type(exc).__name__)


def _drive(layer, stream, cuts, res, on_deliver=None):
    """Transport loop.  cuts == 'ask': hand the reader exactly what it asked for."""
    total = len(stream)
    if cuts == 'ask':
        pos = 0
        got = layer.feed(b'', eof=(total == 0))
        while True:
            if on_deliver and got:
                on_deliver(got)
            if layer.dead or pos >= total:
                break
            k = layer.need if layer.need > 0 else 1
            if layer.need <= 0:
                res.stats['transport.unasked_byte'] += 1
            chunk = stream[pos:pos + k]
            pos += len(chunk)
            res.event('transport', 'deliver', len(chunk))
            got = layer.feed(chunk, eof=(pos >= total))
        return
    if layer.policy == 'eager':
        got = layer.feed(b'', eof=(total == 0))
        if on_deliver and got:
            on_deliver(got)
    for a, b in wire.chunks_from_cuts(total, cuts):
        res.event('transport', 'deliver', b - a)
        got = layer.feed(stream[a:b], eof=(b == total))
        if on_deliver and got:
            on_deliver(got)
        if layer.dead:
            break


def _history_check(res, layer, units, label):
    if layer.dead and res.violations:
        return
    if len(layer.delivered) != len(units):
        missing = 0
        if layer.truth and len(layer.delivered) < len(layer.truth):
            missing = layer.truth[len(layer.delivered)] - len(layer.buf)
        res.violation((PROPERTY, 'incomplete', layer.cls.__name__), 'reader did not end up with the sent sequence',
                      '%s: sent %d units, reader delivered %d; blocked asking for %d bytes while %d are outstanding' % (
                          label, len(units), len(layer.delivered), layer.need, missing))
        return
    for idx, (obj, raw) in enumerate(zip(layer.delivered, units)):
        expect = _standalone(layer.cls, raw)
        if canon(obj) != expect:
            res.violation((PROPERTY, 'fragmentation-dependent', layer.cls.__name__),
                          'delivered object differs from the unfragmented parse of the same record',
                          '%s unit %d: %r != %r' % (label, idx, canon(obj), expect))
            return
    if layer.buf:
        res.violation((PROPERTY, 'leftover', layer.cls.__name__), 'bytes left in the reader buffer after the last record',
                      '%s: %d stray bytes' % (label, len(layer.buf)))


def needs_isolation(doc):
    # registering parsers changes class-level state: in a forked child, so that it does not reach the next run
    return doc['kind'] == 'registry'


def execute(doc):
    res = core.Result()
    kind = doc['kind']
    if kind == 'stream':
        _exec_stream(doc, res)
    elif kind == 'registry':
        _exec_registry(doc, res)
    elif kind == 'tls2':
        _exec_tls2(doc, res)
    elif kind == 'prefix':
        _exec_prefix(doc, res)
    elif kind == 'sender-failed':
        _exec_sender_failed(doc, res)
    else:
        raise core.HarnessError('unknown schedule kind %r' % kind)
    res.stats['sender.units_not_accepted_by_own_parser(C01-class, not sent)'] += len(doc.get('sender_discards', ()))
    return res


def _exec_sender_failed(doc, res):
    """A record the library composed from a properly constructed object must be accepted whole by its own
    parser, otherwise no reader can end up with the sequence that was sent."""
    channel = doc['channel']
    res.sched_sig = ('sender-failed', channel)
    if doc.get('unit') is None:
        res.violation((PROPERTY, 'record-cannot-be-composed', channel),
                      'the reader ends up with exactly the original sequence of records',
                      'constructing / composing a unit for channel %s failed: %s' % (channel, doc['errors']))
        return
    unit = bytes.fromhex(doc['unit'])
    if channel == 'tls_handshake':
        cls = core.get_class('cryptoparser.tls.subprotocol.TlsHandshakeMessageVariant')
    else:
        cls = core.get_class(workload.CHANNEL_BY_NAME[channel].cls_path)
    try:
        cls.parse_exact_size(unit)
    except (core.RunTimeout, KeyboardInterrupt, SystemExit):
        raise
    except BaseException as exc:  # pylint: disable=broad-except
        res.violation((PROPERTY, 'composed-record-not-accepted-whole', cls.__name__, type(exc).__name__),
                      'the reader ends up with exactly the original sequence of records',
                      'a %d byte unit composed by the library (%s...) is answered with %s%s when it is complete' % (
                          len(unit), unit[:24].hex(), type(exc).__name__,
                          '(%s)' % getattr(exc, 'bytes_needed', '') if hasattr(exc, 'bytes_needed') else ''))
    res.event('sender-failed', channel, len(unit))


def _exec_stream(doc, res):
    channel = workload.CHANNEL_BY_NAME[doc['channel']]
    cls = core.get_class(channel.cls_path)
    records = [bytes.fromhex(h) for h in doc['records']]
    stream = b''.join(records)
    bounds = _bounds(records)
    layer = wire.Layer(channel.name, cls, doc['policy'], res, PROPERTY, truth=[len(r) for r in records])
    cuts = doc['cuts']
    _drive(layer, stream, cuts, res)
    _history_check(res, layer, records, channel.name)
    buckets = wire.cut_buckets(channel.framer, bounds, [] if cuts == 'ask' else cuts)
    res.sched_sig = ('stream', channel.name, min(len(records), 4), doc.get('seg'), doc['policy'], buckets)
    res.nontrivial = cuts == 'ask' or any(kind != 'boundary' for _, kind in buckets)
    if any(kind == 'lenfield' for _, kind in buckets):
        res.stats['probe.cut_inside_length_field'] += 1
    if any(kind == 'boundary' for _, kind in buckets):
        res.stats['probe.cut_exactly_at_boundary'] += 1
    res.stats['runs.stream.' + channel.name] += 1


def _exec_registry(doc, res):
    """The library has no parser for the Finished handshake message; an application registers its own with
    register_variant_parser() - one class for the 12-octet TLS form, one for the 36-octet SSL 3.0 form, both under the
    FINISHED tag, at different moments of the connection.  Whatever was parsed or registered before, a Finished
    message of either form that is completely in the buffer is delivered (and its prefixes ask for what is missing)."""
    import random as _random
    from cryptoparser.common.exception import InvalidType
    from cryptoparser.tls.subprotocol import TlsHandshakeMessage, TlsHandshakeMessageVariant, TlsHandshakeType
    rng = _random.Random(doc['seed'])

    def finished_class(size):
        class Finished(TlsHandshakeMessage):  # pylint: disable=too-few-public-methods
            SIZE = size

            def __init__(self, verify_data):
                super(Finished, self).__init__()
                self.verify_data = bytes(verify_data)

            @classmethod
            def get_handshake_type(cls):
                return TlsHandshakeType.FINISHED

            @classmethod
            def _parse(cls, parsable):
                parser = cls._parse_handshake_header(parsable)
                if len(parser['payload']) != cls.SIZE:
                    raise InvalidType()          # the other form: left to the other registered class
                return cls(parser['payload']), parser.parsed_length

            def compose(self):
                return self._compose_header(len(self.verify_data)) + self.verify_data
        return Finished

    forms = {'tls': finished_class(12), 'ssl3': finished_class(36)}
    order = ('tls', 'ssl3') if doc['order'] == 'tls-first' else ('ssl3', 'tls')

    def deliver(form):
        message = bytes(forms[form](rng.randbytes(forms[form].SIZE)).compose())
        layer = wire.Layer('tls_handshake', TlsHandshakeMessageVariant, 'strict', res, PROPERTY, truth=[len(message)])
        cut = rng.randrange(0, len(message))
        layer.feed(message[:cut])
        while not layer.dead and not layer.delivered and len(layer.buf) < len(message):
            have = len(layer.buf)
            layer.feed(message[have:have + max(1, layer.need)], eof=have + max(1, layer.need) >= len(message))
        return bool(layer.delivered) and not res.violations

    for _ in range(doc['before']):
        try:
            TlsHandshakeMessageVariant.parse_immutable(workload.handshake_message(rng))
        except Exception:  # pylint: disable=broad-except
            pass
    TlsHandshakeMessageVariant.register_variant_parser(TlsHandshakeType.FINISHED, forms[order[0]])
    res.event('registry', 'register', order[0])
    good = deliver(order[0]) if doc['parse_between'] else True
    if good:
        TlsHandshakeMessageVariant.register_variant_parser(TlsHandshakeType.FINISHED, forms[order[1]])
        res.event('registry', 'register', order[1])
        good = deliver(order[1]) and deliver(order[0])
    if not good and not res.violations:
        res.violation((PROPERTY, 'registered-record-type-not-delivered', 'TlsHandshakeMessageVariant'),
                      'the reader ends up with exactly the sequence of records that was sent',
                      'a complete Finished message was not delivered after its parser had been registered (%s)' % doc['order'])
    res.sim_events += 3
    res.stats['runs.registry'] += 1
    res.stats['probe.parser_registered_at_run_time'] += 2
    res.sched_sig = ('registry', doc['order'], doc['parse_between'], doc['before'], good)
    res.nontrivial = True


def _exec_tls2(doc, res):
    from cryptoparser.tls.record import TlsRecord
    from cryptoparser.tls.subprotocol import TlsHandshakeMessageVariant
    hs = [bytes.fromhex(h) for h in doc['hs']]
    hstream = b''.join(hs)
    pts = [0] + list(doc['frag_cuts']) + [len(hstream)]
    fragments = [hstream[a:b] for a, b in zip(pts, pts[1:])]
    try:
        records = [bytes(TlsRecord(fragment).compose()) for fragment in fragments]   # the sender: real compose()
    except Exception as exc:  # pylint: disable=broad-except
        res.violation((PROPERTY, 'composed-records-never-accepted-whole', 'tls_record'),
                      'the reader ends up with exactly the original sequence of records',
                      'TlsRecord(fragment).compose() raised %s' % type(exc).__name__)
        res.sched_sig = ('sender-failed', 'tls_record')
        return
    stream = b''.join(records)
    layer1 = wire.Layer('tls_record', TlsRecord, doc['policy'], res, PROPERTY, truth=[len(r) for r in records])
    layer2 = wire.Layer('tls_handshake', TlsHandshakeMessageVariant, doc['policy2'], res, PROPERTY,
                        truth=[len(m) for m in hs])
    seen = [0]

    def on_records(objs):
        for obj in objs:
            seen[0] += 1
            layer2.feed(bytes(obj.fragment), eof=(seen[0] == len(records)))

    if layer2.policy == 'eager':
        layer2.feed(b'')
    _drive(layer1, stream, doc['cuts'], res, on_records)
    _history_check(res, layer1, records, 'record layer')
    if not res.violations:
        _history_check(res, layer2, hs, 'handshake layer')
    spans = 0
    pos = 0
    for message in hs:
        inside = [c for c in pts[1:-1] if pos < c < pos + len(message)]
        spans = max(spans, len(inside) + 1)
        pos += len(message)
    if spans >= 3:
        res.stats['probe.handshake_message_spans_3_records'] += 1
    if any(len(f) == 0 for f in fragments):
        res.stats['probe.zero_length_fragment'] += 1
    if len(hs) >= 2 and len(fragments) < len(hs):
        res.stats['probe.two_handshake_messages_in_one_record'] += 1
    cuts = doc['cuts']
    buckets = wire.cut_buckets('tls_record', _bounds(records), [] if cuts == 'ask' else cuts)
    res.sched_sig = ('tls2', min(len(hs), 4), min(len(fragments), 6), min(spans, 4), doc.get('seg'), doc['policy'],
                     doc['policy2'], buckets)
    res.nontrivial = len(fragments) > 1 or cuts == 'ask' or any(kind != 'boundary' for _, kind in buckets)
    res.stats['runs.tls2'] += 1


def _exec_prefix(doc, res):
    channel = workload.CHANNEL_BY_NAME[doc['channel']]
    cls = core.get_class(channel.cls_path)
    record = bytes.fromhex(doc['record'])
    total = len(record)
    lengths = doc.get('lengths')
    complete = lengths is None and total <= 2048
    if lengths is None:
        if complete:
            lengths = range(total)
        else:
            lengths = sorted(set(list(range(0, 48)) + list(range(total - 16, total)) +
                                 [total * i // 97 for i in range(97)]))
            lengths = [h for h in lengths if 0 <= h < total]
    for h in lengths:
        layer = wire.Layer(channel.name, cls, 'strict', res, PROPERTY, truth=[total])
        layer.buf += record[:h]
        status, _ = layer.attempt()
        if layer.dead or res.violations:
            break
        if status != 'ned':
            raise core.HarnessError('prefix sweep: status %r without violation' % status)
        pos = h
        steps = 0
        while not layer.dead and not layer.delivered and pos < total:
            k = layer.need
            chunk = record[pos:pos + k]
            pos += len(chunk)
            layer.feed(chunk, eof=(pos >= total))
            steps += 1
            if steps > total + 2:
                raise core.HarnessError('prefix sweep: no progress')
        if res.violations:
            break
        if len(layer.delivered) != 1:
            res.violation((PROPERTY, 'incomplete', cls.__name__), 'strict reader did not obtain the record',
                          'from prefix %d of %d: need=%d buffer=%d' % (h, total, layer.need, len(layer.buf)))
            break
        if canon(layer.delivered[0]) != _standalone(cls, record):
            res.violation((PROPERTY, 'fragmentation-dependent', cls.__name__),
                          'object read incrementally differs from the unfragmented parse', 'from prefix %d' % h)
            break
    if complete:
        res.stats['prefix_sweeps_complete'] += 1
    res.stats['prefix_lengths_checked'] += len(lengths)
    res.stats['runs.prefix.' + channel.name] += 1
    res.sched_sig = ('prefix', channel.name, total if total < 64 else 64 + total.bit_length(), bool(complete))
    res.nontrivial = total > 1


# ---------------------------------------------------------------- minimisation

def shrink(doc, sig, budget):
    doc = dict(doc)

    def test_with(key, value):
        cand = dict(doc)
        cand[key] = value
        return core.has_sig(__import__('simverif.props.c04', fromlist=['x']), cand, sig)

    me = __import__('simverif.props.c04', fromlist=['x'])
    if doc['kind'] == 'stream':
        doc['records'] = core.ddmin_list(doc['records'], lambda c: bool(c) and test_with('records', c), budget)
        if doc['cuts'] != 'ask':
            doc['cuts'] = core.ddmin_list(doc['cuts'], lambda c: test_with('cuts', c), budget)
        for policy in ('eager', 'strict'):
            if doc['policy'] != policy and test_with('policy', policy):
                doc['policy'] = policy
                break
    elif doc['kind'] == 'tls2':
        doc['frag_cuts'] = core.ddmin_list(doc['frag_cuts'], lambda c: test_with('frag_cuts', c), budget)
        if doc['cuts'] != 'ask':
            doc['cuts'] = core.ddmin_list(doc['cuts'], lambda c: test_with('cuts', c), budget)
    elif doc['kind'] == 'prefix':
        total = len(doc['record']) // 2
        lengths = doc.get('lengths') or list(range(total))
        for h in lengths:
            if budget.spent():
                break
            cand = dict(doc)
            cand['lengths'] = [h]
            budget.evals += 1
            if core.has_sig(me, cand, sig):
                doc = cand
                break
    return doc


# ---------------------------------------------------------------- the check

BUDGET = {'quick': (24000, 75.0), 'thorough': (600000, 900.0)}


def check(tier, seed):
    began = time.time()
    me = __import__('simverif.props.c04', fromlist=['x'])
    extra = prepare(tier)
    histories = core.history_batch(me, seed, tier, extra)      # first: this process has executed no run yet
    core.determinism_selftest(me, seed, tier, extra, count=30)
    n_runs, wall = BUDGET[tier]
    batch = core.merge_batches([core.run_batch(me, seed, tier, n_runs, wall, extra), histories])
    coverage = core.coverage_from_batch(
        batch, RULE,
        fault_kinds=(),
        probes=('cut_inside_length_field', 'cut_exactly_at_boundary', 'zero_length_fragment',
                'handshake_message_spans_3_records', 'two_handshake_messages_in_one_record',
                'blocked_one_byte_missing'),
        components={
            'real': ['cryptoparser compose() of every record (sender)', 'cryptoparser parse_mutable (reader calls)',
                     'asn1crypto / cryptodatahub as imported by the library'],
            'simulated': ['transport: segmentation of the byte stream into delivery events',
                          'reader loop (strict / eager / ask) around parse_mutable',
                          'TLS record-to-handshake relay (fragments appended to a handshake buffer)'],
            'stubbed': [],
        },
        extra={'fault_injection': 'none by design: C04 is quantified over fault-free delivery schedules; '
                                  'faulty transports are exercised by C02/C03/C19',
               'prefix_sweep': {'records_swept_completely': batch.stats.get('prefix_sweeps_complete', 0),
                                'prefix_lengths_checked': batch.stats.get('prefix_lengths_checked', 0)}})
    assumptions = [
        'true record boundaries are the lengths of the byte strings compose() returned (the sender wrote them)',
        'the reader loop is a model of a client written from the property statement',
        'sampling: a clean batch is evidence, not proof',
    ]
    return core.report_and_exit(me, batch, seed, tier, coverage, assumptions, LEVEL, began)
