# -*- coding: utf-8 -*-
"""C13 - observers are pure; objects never share state with inputs or each other.

Three families of histories, one oracle style (frozen canon() snapshots):
 observe  - a seeded interleaving (with repeats) of the observers an object has; failing calls
            are provoked (client hellos at the cipher-suite ceiling with SCSV flags);
 buffer   - parse from bytes and from a bytearray, then the I/O layer reuses the bytearray
            (overwrite, clear, extend); and the object is edited while the buffer is watched;
 defaults - construct A with defaults, mutate its defaulted fields in place, construct B."""

import datetime
import enum
import time

import attr

from simverif import core, corpus
from simverif.canon import canon

PROPERTY = 'C13'
LEVEL = 'exploration'

OBSERVERS = ('compose', 'ja3', 'hassh', 'hassh_server', 'fingerprints', 'key_tag', 'key_bytes', 'host_key_asdict',
             'as_json', 'as_markdown', '_asdict', 'json_dumps', 'str', 'repr')

RULE = (
    'one evaluation = one history. observe: one object (any corpus class, or a client hello built at the cipher-suite '
    'ceiling with either/both SCSV flags, or a default-constructed message) and 2-12 observer calls from %s in seeded '
    'order with repeats. buffer: one corpus input parsed from bytes and from a bytearray through a seeded entry '
    'point, followed by 1-4 buffer events (overwrite / clear / extend) and an edit of the object. defaults: one attrs '
    'class with defaulted fields, instance A mutated in place, instance B built afterwards. Signature = (kind, class, '
    'observer or event sequence, outcome classes); non-trivial = at least one failing call, one buffer event after '
    'an accepted parse, or one mutated default.' % '/'.join(OBSERVERS)
)

_DEFAULT_CLASSES = None

FACTORY_SUBJECTS = (
    'hs_client_hello', 'hs_client_hello', 'hs_server_hello', 'hs_certificate', 'hs_certificate_request',
    'hs_hello_retry_request', 'hs_certificate_status', 'hs_server_key_exchange', 'kexinit', 'kexinit', 'ssh_init',
    'ssh_dh', 'ssh_gex', 'unit:tls_record', 'unit:ssl2_record', 'unit:ssh_init', 'unit:ssh_kexdh', 'unit:ssh_kexdhgroup',
    'unit:mysql', 'unit:tpkt', 'unit:openvpn_tcp', 'unit:ldap_response', 'unit:ssh_banner', 'unit:tls_handshake',
)


def _attrs_classes():
    """Every attrs class defined in the library that has at least one defaulted init field."""
    global _DEFAULT_CLASSES  # pylint: disable=global-statement
    if _DEFAULT_CLASSES is not None:
        return _DEFAULT_CLASSES
    import sys
    found = {}
    for name in sorted(sys.modules):
        if not name.startswith('cryptoparser.'):
            continue
        module = sys.modules[name]
        for attr_name in sorted(vars(module)):
            obj = vars(module)[attr_name]
            if isinstance(obj, type) and obj.__module__ == name and attr.has(obj):
                fields = [f for f in attr.fields(obj) if f.init and f.default is not attr.NOTHING]
                if fields and not issubclass(obj, BaseException):
                    found[core.class_path(obj)] = obj
    _DEFAULT_CLASSES = found
    return found


_PLAIN_CLASSES = None


def _plain_classes():
    """Library classes that are not attrs classes (or define their own __init__) and whose __init__ has parameters
    with default values: a mutable default argument object is shared by every call that leaves it out."""
    global _PLAIN_CLASSES  # pylint: disable=global-statement
    if _PLAIN_CLASSES is None:
        import inspect
        import sys
        found = {}
        for name in sorted(sys.modules):
            if not name.startswith('cryptoparser.'):
                continue
            module = sys.modules[name]
            for attr_name in sorted(vars(module)):
                obj = vars(module)[attr_name]
                if not (isinstance(obj, type) and obj.__module__ == name) or issubclass(obj, (BaseException, enum.Enum)):
                    continue
                init = obj.__dict__.get('__init__')
                if init is None or not inspect.isfunction(init) or not init.__code__.co_filename.startswith(core.REPO_PKG_PREFIX):
                    continue
                try:
                    params = list(inspect.signature(init).parameters.values())[1:]
                except (TypeError, ValueError):
                    continue
                if any(p.default is not inspect.Parameter.empty for p in params):
                    found['plain:' + core.class_path(obj)] = obj
        _PLAIN_CLASSES = found
    return _PLAIN_CLASSES


def _exec_plain_defaults(doc, res):
    import inspect
    cls = _plain_classes()[doc['cls']]
    name = cls.__name__
    donor = _donor_for(cls)
    params = list(inspect.signature(cls.__dict__['__init__']).parameters.values())[1:]
    kwargs = {}
    for param in params:
        if param.default is not inspect.Parameter.empty or param.kind in (param.VAR_POSITIONAL, param.VAR_KEYWORD):
            continue
        for candidate in (param.name, '_' + param.name):
            if donor is not None and hasattr(donor, candidate):
                kwargs[param.name] = getattr(donor, candidate)
                break
        else:
            res.sched_sig = ('defaults', name, 'no-donor')
            res.stats['defaults.class_without_donor(uncovered)'] += 1
            return
    try:
        first, second = cls(**kwargs), cls(**kwargs)
    except Exception as exc:  # pylint: disable=broad-except
        res.note(name, 'unbuildable', type(exc).__name__)
        res.sched_sig = ('defaults', name, 'unbuildable')
        res.stats['defaults.class_not_constructible'] += 1
        return
    given = {id(value) for value in kwargs.values()}
    shared = []
    for key in sorted(vars(first)):
        a_value, b_value = vars(first).get(key), vars(second).get(key)
        if id(a_value) in given:
            continue            # the caller's own argument object, handed to both constructors by this check
        if is_mutable(a_value) and a_value is b_value:
            shared.append((key, type(a_value).__name__))
        elif a_value is not None and b_value is not None and _shared_mutable(a_value, b_value):
            shared.append((key, _shared_mutable(a_value, b_value)))
    for key, what in shared:
        res.violation((PROPERTY, 'shared-mutable-default', name, key.lstrip('_')),
                      'objects created with default arguments do not share mutable state',
                      'two %s instances built with the same required arguments and all defaults hold the very same '
                      '%s object in attribute %s' % (name, what, key))
    res.event(name, 'plain-defaults', len(shared))
    res.sched_sig = ('defaults', name, 'plain', bool(shared))
    res.nontrivial = True
    res.stats['runs.defaults'] += 1
    res.stats['probe.non_attrs_class_constructed_twice_with_defaults'] += 1


def prepare(tier):  # pylint: disable=unused-argument
    corpus.class_paths()
    corpus.warm_variants()
    from simverif import workload
    workload.pools()
    _attrs_classes()
    _plain_classes()
    from simverif.props import c12
    c12.classes()
    grow_hosts()
    return None


_GROW_HOSTS = None


def _find_grow_hosts():
    hosts = []
    for path in corpus.class_paths():
        for idx, (raw, _) in enumerate(corpus.objects(path)[:3]):
            try:
                obj = corpus.resolve(path).parse_immutable(raw)[0]
                if grow_all(obj, 1) >= 2:
                    hosts.append([path, idx])
                    break
            except Exception:  # pylint: disable=broad-except
                continue
    return hosts


def grow_hosts():
    """Corpus subjects that hold at least two nested byte containers / integer vectors (candidates for in-place
    growth beyond what an enclosing length prefix can carry).  Found in a forked child (it edits objects)."""
    global _GROW_HOSTS  # pylint: disable=global-statement
    if _GROW_HOSTS is None:
        _GROW_HOSTS = core.call_isolated(_find_grow_hosts)
    return _GROW_HOSTS


def _late_prepare():
    from simverif.props import c14
    c14.set_field_sites()


# ---------------------------------------------------------------- subjects

def _build_subject(spec):
    """spec -> object.  ('corpus', path, index) | ('client_hello', n_suites, fallback, reneg) | ('default', path)"""
    kind = spec[0]
    if kind == 'corpus':
        seeds = corpus.objects(spec[1])
        if not seeds:
            return None
        raw, _ = seeds[spec[2] % len(seeds)]
        return corpus.resolve(spec[1]).parse_immutable(raw)[0]
    if kind == 'client_hello':
        from cryptodatahub.tls.algorithm import TlsCipherSuite
        from cryptoparser.tls.subprotocol import (
            TlsHandshakeClientHello, TlsHandshakeHelloRandom, TlsHandshakeHelloRandomBytes)
        suites = list(TlsCipherSuite)
        chosen = [suites[i % len(suites)] for i in range(spec[1])]
        # explicit clock / random values: defaults would read the wall clock and the global PRNG
        hello_random = TlsHandshakeHelloRandom(datetime.datetime(2024, 1, 15, 12, 0, 0),
                                               TlsHandshakeHelloRandomBytes(bytearray(range(28))))
        return TlsHandshakeClientHello(cipher_suites=chosen, random=hello_random, fallback_scsv=bool(spec[2]),
                                       empty_renegotiation_info_scsv=bool(spec[3]))
    if kind == 'mutated':
        from simverif import wire
        cls = corpus.resolve(spec[1])
        try:
            return cls.parse_immutable(wire.apply_faults(bytes.fromhex(spec[2]), spec[3]))[0]
        except Exception:  # the mutated input is rejected: no subject  # pylint: disable=broad-except
            return None
    if kind == 'factory':
        import random as _random
        from simverif import workload
        rng = _random.Random(spec[2])
        name = spec[1]
        if name.startswith('hs_'):
            return getattr(workload, name)(rng)
        if name == 'kexinit':
            return workload.ssh_kexinit(rng)
        if name.startswith('ssh_'):
            return workload.ssh_message(rng, name[4:])
        if name.startswith('unit:'):
            channel = workload.CHANNEL_BY_NAME[name[5:]]
            return core.get_class(channel.cls_path).parse_exact_size(channel.make(rng))
        raise core.HarnessError('unknown factory %r' % name)
    if kind == 'default':
        cls = _attrs_classes()[spec[1]]
        try:
            return _construct_default(cls, _donor_for(cls))[0]
        except LookupError:
            return None
    raise core.HarnessError('unknown subject %r' % (spec, ))


def _observers_of(obj):
    out = []
    for name in OBSERVERS:
        if name in ('str', 'repr', 'json_dumps'):
            out.append(name)
        elif hasattr(type(obj), name):
            out.append(name)
    return out


def _call_observer(obj, name):
    import json
    if name == 'str':
        return str(obj)
    if name == 'repr':
        return repr(obj)
    if name == 'json_dumps':
        return json.dumps(obj)
    member = getattr(type(obj), name)
    if isinstance(member, property):
        return getattr(obj, name)
    return getattr(obj, name)()


# ---------------------------------------------------------------- in-place mutation

def is_mutable(value):
    from cryptoparser.common.base import ArrayBase
    if isinstance(value, (list, bytearray, dict, set, ArrayBase)):
        return True
    if isinstance(value, enum.Enum):
        return False
    cls = type(value)
    if (cls.__module__ or '').startswith('attr'):
        return False        # validator / converter objects used as (accidental) defaults are not message state
    if attr.has(cls):
        frozen = getattr(cls, '__attrs_attrs__', None) is not None and getattr(cls.__setattr__, '__name__', '') == '_frozen_setattrs'
        return not frozen
    return False


def mutate_in_place(value, depth=0):  # pylint: disable=too-many-return-statements,too-many-branches
    """Edit a mutable value in place through its public interface.  Returns a description or None."""
    from cryptoparser.common.base import ArrayBase
    if depth > 4:
        return None
    if isinstance(value, bytearray):
        value += b'\xa5'
        return 'bytearray+=1'
    if isinstance(value, list):
        value.append(424242)
        return 'list.append'
    if isinstance(value, dict):
        value['__c13_probe__'] = 424242
        return 'dict[key]='
    if isinstance(value, set):
        value.add(424242)
        return 'set.add'
    if isinstance(value, ArrayBase):
        from simverif.props import c12
        info = c12.classes().get(core.class_path(type(value)))
        if len(value) and value.param.min_byte_num < value._items_size:  # pylint: disable=protected-access
            try:
                value.pop()
                return 'vector.pop'
            except Exception:  # pylint: disable=broad-except
                pass
        if info:
            order = sorted(range(len(info['pool'])), key=lambda i: info['sizes'][i])
            for idx in order[:6]:
                try:
                    value.append(info['pool'][idx])
                    return 'vector.append'
                except Exception:  # pylint: disable=broad-except
                    continue
        if len(value):
            for item in value:
                if is_mutable(item):
                    what = mutate_in_place(item, depth + 1)
                    if what:
                        return 'vector[i].' + what
        return None
    if attr.has(type(value)):
        done = []
        # every mutable container / nested message held by the object is edited in place ...
        for field in attr.fields(type(value)):
            current = getattr(value, field.name, None)
            if is_mutable(current):
                what = mutate_in_place(current, depth + 1)
                if what:
                    done.append('%s.%s' % (field.name, what))
        if done:
            return '; '.join(done)
        # ... and when it holds none, one scalar field is assigned another value
        for field in attr.fields(type(value)):
            current = getattr(value, field.name, None)
            replacement = _other_value(current)
            if replacement is not None:
                try:
                    setattr(value, field.name, replacement[0])
                    return 'setattr(%s)' % field.name
                except Exception:  # frozen or validated  # pylint: disable=broad-except
                    continue
        return None
    return None


def _other_value(current):
    """A different value of the same type for a scalar field, wrapped in a tuple; None if unknown."""
    if isinstance(current, bool):
        return (not current, )
    if isinstance(current, enum.Enum):
        members = list(type(current))
        if len(members) > 1:
            return (members[(members.index(current) + 1) % len(members)], )
        return None
    if isinstance(current, int):
        return (current + 1, )
    if isinstance(current, datetime.datetime):
        try:
            return (current + datetime.timedelta(days=1), )
        except OverflowError:
            return (current - datetime.timedelta(days=1), )
    if isinstance(current, bytes):
        return (current + b'\xa5', )
    if isinstance(current, str):
        return (current + 'x', )
    return None


def grow_all(obj, amount, depth=0):
    """Grow every nested byte container / integer vector in place by `amount` items (a caller filling in key
    material or payloads after parsing): items stay valid one by one while their sum may exceed what the
    enclosing length prefix can carry.  Returns the number of containers grown."""
    from cryptoparser.common.base import ArrayBase
    if depth > 4:
        return 0
    grown = 0
    if isinstance(obj, bytearray):
        obj.extend(b'\xa5' * amount)
        return 1
    if isinstance(obj, ArrayBase):
        if len(obj) and all(isinstance(i, int) and not isinstance(i, (bool, enum.Enum)) for i in obj):
            try:
                obj.extend([obj[0]] * amount)
                return 1
            except Exception:  # pylint: disable=broad-except
                return 0
        for item in obj:
            grown += grow_all(item, amount, depth + 1)
        return grown
    if isinstance(obj, list):
        for item in obj:
            grown += grow_all(item, amount, depth + 1)
        return grown
    if attr.has(type(obj)) and not isinstance(obj, enum.Enum):
        for field in attr.fields(type(obj)):
            grown += grow_all(getattr(obj, field.name, None), amount, depth + 1)
    return grown


def _declared_type(validator):
    """The type an attrs validator (instance_of / optional(instance_of) / and_) asks for, or None."""
    if validator is None:
        return None
    declared = getattr(validator, 'type', None)
    if isinstance(declared, tuple):
        declared = declared[0] if declared else None
    if isinstance(declared, type):
        return declared
    inner = getattr(validator, 'validator', None)
    if inner is not None:
        return _declared_type(inner)
    for inner in getattr(validator, '_validators', ()) or ():
        found = _declared_type(inner)
        if found is not None:
            return found
    return None


def edit_field(obj, rng, depth=0):
    """A caller edits a message before using it: assign another valid value to one randomly chosen public field
    (toggle a member of a flag set, another enum member, a nearby integer, a flipped bool, longer bytes), or edit
    a nested message.  Returns a description or None."""
    if depth > 3 or not attr.has(type(obj)):
        return None
    fields = [f for f in attr.fields(type(obj)) if not f.name.startswith('_')]
    rng.shuffle(fields)
    if depth == 0 and rng.random() < 0.08:
        amount = rng.choice((20000, 33000, 40000))
        if grow_all(obj, amount):
            return 'grow_all(%d)' % amount
    for field in fields:
        value = getattr(obj, field.name, None)
        new = None
        if type(value) is list and rng.random() < 0.7:  # pylint: disable=unidiomatic-typecheck
            action = rng.choice(('clear', 'pop', 'append', 'append'))
            if action == 'clear' and value:
                del value[:]
                return '%s.clear()' % field.name
            if action == 'pop' and value:
                value.pop()
                return '%s.pop()' % field.name
            if value and isinstance(value[0], (bytes, str)) and rng.random() < 0.4:
                # an empty element (the root label of an absolute name, an empty token)
                value.append(type(value[0])())
                return '%s.append(empty)' % field.name
            if value and isinstance(value[0], (int, bytes, str)) and not isinstance(value[0], bool):
                value.append(value[rng.randrange(len(value))])
                return '%s.append(copy)' % field.name
            if not value:
                value.append(1)
                return '%s.append(1)' % field.name
        if isinstance(value, (set, frozenset)):
            members = None
            for item in value:
                if isinstance(item, enum.Enum):
                    members = list(type(item))
                    break
            if members is None:
                from simverif.props import c14
                enum_class = c14._enum_of_validator(getattr(field.validator, 'member_validator', field.validator))  # pylint: disable=protected-access
                members = list(enum_class) if enum_class else None
            if members:
                member = rng.choice(members)
                if member in value:
                    value.discard(member)
                    return '%s.discard(%s)' % (field.name, member.name)
                value.add(member)
                return '%s.add(%s)' % (field.name, member.name)
            continue
        if isinstance(value, bytearray) and rng.random() < 0.5:
            if value and rng.random() < 0.4:
                keep = rng.choice((0, 1, len(value) // 2, len(value) - 1))
                del value[keep:]
                return '%s.truncate(%d bytes left)' % (field.name, keep)
            grow = rng.choice((1, 300, 70000))
            value.extend(b'\xa5' * grow)
            return '%s.extend(%d bytes)' % (field.name, grow)
        if isinstance(value, (bytes, bytearray, str)) and len(value) and rng.random() < 0.35:
            # a shorter or empty value of the same type
            keep = rng.choice((0, 0, 1, len(value) // 2, len(value) - 1))
            try:
                setattr(obj, field.name, value[:keep])
                return 'setattr(%s, %d of %d)' % (field.name, keep, len(value))
            except Exception:  # pylint: disable=broad-except
                pass
        from cryptoparser.common.base import ArrayBase
        if isinstance(value, ArrayBase) and not len(value) and rng.random() < 0.7:
            # an empty vector gets content (from the item pool of its class)
            from simverif.props import c12
            info = c12.classes().get(core.class_path(type(value)))
            if info and info['pool']:
                item = info['pool'][rng.randrange(len(info['pool']))]
                count = rng.choice((1, 3, 40, 30000)) if isinstance(item, int) else rng.choice((1, 2))
                try:
                    value.extend([item] * count)
                    return '%s.extend(%d pool items)' % (field.name, count)
                except Exception:  # pylint: disable=broad-except
                    pass
        if isinstance(value, ArrayBase) and len(value) and rng.random() < 0.6:
            inner = value[rng.randrange(len(value))]
            if attr.has(type(inner)) and not isinstance(inner, enum.Enum):
                what = edit_field(inner, rng, depth + 1)
                if what:
                    return '%s[i].%s' % (field.name, what)
            if isinstance(inner, int) and not isinstance(inner, (bool, enum.Enum)):
                grow = rng.choice((1, 40, 70000))
                try:
                    value.extend([inner] * grow)
                    return '%s.extend(%d items)' % (field.name, grow)
                except Exception:  # refused by the vector's bounds  # pylint: disable=broad-except
                    pass
        other = _other_value(value)
        if isinstance(value, datetime.datetime) and value.tzinfo is not None and rng.random() < 0.5:
            # the same instant expressed in another zone
            try:
                other = (value.astimezone(datetime.timezone(datetime.timedelta(hours=rng.choice((-8, 1, 2, 5))))), )
            except (OverflowError, ValueError):
                pass
        if value is None:
            # an optional field that is unset gets a value of the type its validator declares
            declared = _declared_type(field.validator)
            if declared is datetime.datetime:
                other = (datetime.datetime(2030, 1, 2, 3, 4, 5, tzinfo=datetime.timezone.utc), )
            elif declared in (int, str, bytes):
                other = ({int: 1, str: 'x', bytes: b'x'}[declared], )
        if isinstance(value, enum.Enum):
            members = [m for m in type(value) if m is not value]
            other = (rng.choice(members), ) if members else None
        if other is not None:
            new = other[0]
            try:
                setattr(obj, field.name, new)
                return 'setattr(%s)' % field.name
            except Exception:  # pylint: disable=broad-except
                continue
        if attr.has(type(value)) and not isinstance(value, enum.Enum):
            what = edit_field(value, rng, depth + 1)
            if what:
                return '%s.%s' % (field.name, what)
    return None


# ---------------------------------------------------------------- construction with defaults

def _construct_default(cls, donor=None):
    """(instance, names of fields left to their defaults).  Required fields come from a parsed
    corpus object of the same class (donor) or from simple values."""
    fields = [f for f in attr.fields(cls) if f.init]
    kwargs = {}
    defaulted = []
    for field in fields:
        name = field.name.lstrip('_')
        if field.default is not attr.NOTHING:
            defaulted.append(field.name)
            continue
        if donor is not None and getattr(donor, field.name, None) is not None:
            kwargs[name] = getattr(donor, field.name)
            continue
        # no usable donor value: a member of the enumeration the validator names, if it names one
        from simverif.props import c14
        enum_class = c14._enum_of_validator(field.validator)  # pylint: disable=protected-access
        if enum_class is not None:
            kwargs[name] = list(enum_class)[0]
        elif donor is not None and hasattr(donor, field.name):
            kwargs[name] = getattr(donor, field.name)
        else:
            raise LookupError('no value for required field %s' % field.name)
    try:
        return cls(**kwargs), defaulted
    except (TypeError, ValueError):
        # a field whose declared default (None) its own validator refuses is required in practice
        for field in fields:
            if field.name in defaulted and field.default is None and donor is not None and \
                    getattr(donor, field.name, None) is not None:
                kwargs[field.name.lstrip('_')] = getattr(donor, field.name)
                defaulted.remove(field.name)
        return cls(**kwargs), defaulted


def _donor_for(cls):
    seeds = corpus.objects(core.class_path(cls))
    for _, obj in seeds:
        if type(obj) is cls:
            return obj
    return None


# ---------------------------------------------------------------- generation

SWEEP_CALLS = ('as_json', 'as_markdown', '_asdict', 'fingerprints', 'key_tag', 'key_bytes', 'host_key_asdict', 'ja3',
               'hassh', 'hassh_server', 'str')


def generate(rng, index, tier, extra):  # pylint: disable=unused-argument
    if extra and extra.get('phase') == 'sweep':
        # one class per run: every accepted input of the class (committed seeds and derived valid variants) is
        # parsed and observed by every observer before and after compose(), twice
        paths = corpus.class_paths()
        path = paths[index % len(paths)]
        inputs = corpus.accepted_plus(path)[:48 if tier == 'thorough' else 24]
        return {'kind': 'purity', 'cls': path, 'inputs': [raw.hex() for raw in inputs]}
    if extra and extra.get('phase') == 'edits':
        # one class per run: each accepted input is edited in place the way a caller would (a fixed series of edit
        # seeds), then observed by every observer around compose()
        paths = corpus.class_paths()
        path = paths[index % len(paths)]
        inputs = corpus.accepted_plus(path)[:6 if tier == 'thorough' else 3]
        return {'kind': 'editsweep', 'cls': path, 'inputs': [raw.hex() for raw in inputs],
                'edit_seeds': 48 if tier == 'thorough' else 10}
    if extra and extra.get('phase') == 'pairs':
        # one class per history: its accepted inputs observed one after the other in one process (objects die and
        # new ones take their place), each compared with the same observation alone in a pristine process
        paths = corpus.class_paths()
        path = paths[index % len(paths)]
        inputs = corpus.accepted_plus(path)[:5]
        order = inputs + inputs[:2] if len(inputs) > 1 else inputs
        calls = list(SWEEP_CALLS) + ['compose'] + list(SWEEP_CALLS)
        return {'kind': core.RUNSEQ, 'docs': [
            {'kind': 'observe', 'subject': ['mutated', path, raw.hex(), []], 'calls': calls} for raw in order]}
    roll = rng.random()
    paths = corpus.class_paths()
    if roll < 0.5:
        sub = rng.random()
        if sub < 0.12:
            n_suites = rng.choice((1, 2, 32765, 32766, 32767, 32766, 32767))
            spec = ['client_hello', n_suites, rng.random() < 0.6, rng.random() < 0.6]
        elif sub < 0.22:
            names = sorted(_attrs_classes())
            spec = ['default', rng.choice(names)]
        elif sub < 0.5:
            spec = ['factory', rng.choice(FACTORY_SUBJECTS), rng.getrandbits(48)]
        elif sub < 0.65:
            # an object parsed from a mutated but still accepted input
            from simverif import wirefault
            path = rng.choice(paths)
            raw = rng.choice(corpus.accepted_plus(path) or [b''])
            faults = (wirefault.typed_faults(rng, raw) if rng.random() < 0.4 else wirefault.token_faults(rng, raw)) if wirefault.is_text(raw) and rng.random() < 0.6 else \
                wirefault.gen_faults(rng, raw, max_faults=1)
            spec = ['mutated', path, raw.hex(), faults]
        else:
            path = rng.choice(paths)
            spec = ['corpus', path, rng.randrange(64)]
        calls = [rng.choice(OBSERVERS) for _ in range(rng.choice((2, 3, 4, 6, 8, 12)))]
        if spec[0] == 'client_hello':
            calls = [rng.choice(('compose', 'ja3', 'compose', 'as_json', 'as_markdown', 'compose')) for _ in calls]
        return {'kind': 'observe', 'subject': spec, 'calls': calls}
    if roll < 0.8:
        path = rng.choice(paths)
        seeds = corpus.accepted(path)
        made = None
        derived = corpus.variants(path)
        if derived and rng.random() < 0.4:
            made = rng.choice(derived).hex()       # a valid input derived from a seed by editing and composing
        if rng.random() < 0.3:
            from simverif import workload
            channel = rng.choice(workload.CHANNELS)
            try:
                path, made = channel.cls_path, channel.make(rng).hex()
            except workload.SenderRejected:     # the sender is unusable on this tree (not this property's concern)
                pass
        events = []
        for _ in range(rng.randrange(1, 5)):
            what = rng.choice(('overwrite', 'overwrite', 'fill', 'clear', 'extend', 'reverse'))
            if what == 'overwrite':
                events.append({'e': 'overwrite', 'at': rng.randrange(4096), 'val': rng.getrandbits(8)})
            elif what == 'extend':
                events.append({'e': 'extend', 'hex': bytes(rng.getrandbits(8) for _ in range(rng.randrange(1, 9))).hex()})
            else:
                events.append({'e': what})
        return {'kind': 'buffer', 'cls': path, 'seed': rng.randrange(max(1, len(seeds))), 'made': made,
                'entry': rng.choice(('parse_mutable', 'parse_mutable', 'parse_immutable', 'parse_exact_size')),
                'tail': bytes(rng.getrandbits(8) for _ in range(rng.choice((0, 0, 3, 8)))).hex(), 'events': events}
    if roll < 0.9:
        names = sorted(_attrs_classes()) + sorted(_plain_classes())
        return {'kind': 'defaults', 'cls': rng.choice(names), 'twin': rng.random() < 0.3}
    # a caller edits a parsed / built message in place, then observes it
    sub = rng.random()
    from simverif.props import c14
    sites = c14.set_field_sites()
    if sub < 0.4 and sites:
        spec = ['corpus', rng.choice(sites)[0], rng.randrange(64)]
    elif sub < 0.7:
        spec = ['factory', rng.choice(FACTORY_SUBJECTS), rng.getrandbits(48)]
    else:
        spec = ['corpus', rng.choice(paths), rng.randrange(64)]
    calls = [rng.choice(('compose', 'compose', 'as_json', 'as_markdown', 'ja3', 'hassh', 'key_tag', 'fingerprints', '_asdict'))
             for _ in range(rng.choice((2, 3, 4, 6)))]
    if grow_hosts() and rng.random() < 0.3:
        # in-place growth of nested key material / payloads until the enclosing prefix overflows: composing fails
        path, idx = rng.choice(grow_hosts())
        return {'kind': 'observe', 'subject': ['corpus', path, idx], 'calls': ['compose'] + calls, 'edits': [],
                'grow': rng.choice((20000, 33000, 40000, 70000))}
    return {'kind': 'observe', 'subject': spec, 'calls': calls, 'edits': [rng.getrandbits(32) for _ in range(rng.choice((1, 1, 2, 3)))]}


# ---------------------------------------------------------------- execution

def needs_isolation(doc):
    """Runs that edit objects in place execute in a forked child: a shared default (the very defect
    this property is about) would otherwise leak from one run into the next."""
    return doc['kind'] in ('defaults', 'buffer', 'purity', 'editsweep') or (
        doc['kind'] == 'observe' and (doc['subject'][0] != 'corpus' or bool(doc.get('edits')) or bool(doc.get('grow'))))


def history_isolation(doc):
    """Inside a history of runs only the runs that edit objects in place stay isolated (they exercise the listed
    Set-Cookie shared-default finding); observing never changes anything, so observers of different objects run in
    one process, where state shared between objects would show."""
    if doc['kind'] == 'observe':
        return bool(doc.get('edits')) or bool(doc.get('grow')) or doc['subject'][0] in ('default', 'client_hello')
    return True


def execute(doc):
    res = core.Result()
    kind = doc['kind']
    if kind == 'observe':
        _exec_observe(doc, res)
    elif kind == 'buffer':
        _exec_buffer(doc, res)
    elif kind == 'defaults':
        _exec_defaults(doc, res)
    elif kind == 'editsweep':
        calls = ['compose'] + list(SWEEP_CALLS) + ['compose'] + list(SWEEP_CALLS)
        plan = doc.get('only') or [[number, seed] for number in range(len(doc['inputs'])) for seed in range(doc['edit_seeds'])]
        for number, seed in plan:
            before = len(res.violations)
            _exec_observe({'kind': 'observe', 'subject': ['mutated', doc['cls'], doc['inputs'][number], []], 'calls': calls,
                           'edits': [seed * 7919 + 13]}, res)
            for violation in res.violations[before:]:
                violation['case'] = [number, seed]
            if res.violations:
                break
        res.sched_sig = ('editsweep', doc['cls'].rsplit('.', 1)[1], len(doc['inputs']))
        res.nontrivial = bool(doc['inputs'])
        res.stats['runs.edit_sweep_classes'] += 1
        res.stats['edit_sweep_cases'] += len(plan)
    elif kind == 'purity':
        calls = list(SWEEP_CALLS) + ['compose'] + list(SWEEP_CALLS) + ['compose', 'repr'] + list(SWEEP_CALLS)
        for number, hexdata in enumerate(doc['inputs']):
            # two objects parsed from the same bytes hold no mutable object in common (whatever it is: a default,
            # an interned item, a parameter object handed out by a class-level cache)
            spec = ['mutated', doc['cls'], hexdata, []]
            try:
                one, other = _build_subject(spec), _build_subject(spec)
            except Exception:  # pylint: disable=broad-except
                one = other = None
            if one is not None and other is not None:
                shared = _shared_mutable(one, other)
                res.stats['probe.two_parses_scanned_for_shared_mutable_objects'] += 1
                if shared:
                    res.violation((PROPERTY, 'objects-share-state', shared),
                                  'objects do not share mutable state, so editing one message never changes another',
                                  'two %s objects parsed from the same %d bytes both hold the same mutable %s object' % (
                                      type(one).__name__, len(hexdata) // 2, shared))
                    break
            for cycle in range(3):
                _exec_observe({'kind': 'observe', 'subject': ['mutated', doc['cls'], hexdata, []],
                               'calls': calls if cycle == 0 else list(SWEEP_CALLS), 'break': number + cycle * 7}, res)
                if res.violations:
                    break
            if res.violations:
                break
        res.sched_sig = ('purity', doc['cls'].rsplit('.', 1)[1], len(doc['inputs']))
        res.nontrivial = bool(doc['inputs'])
        res.stats['runs.purity_sweep_classes'] += 1
        res.stats['purity_sweep_inputs'] += len(doc['inputs'])
    else:
        raise core.HarnessError('unknown schedule kind %r' % kind)
    return res


def _outcome(func, *args):
    try:
        value = func(*args)
        result = ('value', canon(value))
        if func is _call_observer and args[1:] and args[1] in ('compose', 'key_bytes') and isinstance(value, bytearray):
            # the caller owns what compose() hands back: it goes on writing into that buffer (the next header, the
            # next record), which must not reach into the object or into what later calls return
            value += b'\xa5\x5a'
        return result
    except (core.RunTimeout, KeyboardInterrupt, SystemExit, core.HarnessError):
        raise
    except BaseException as exc:  # pylint: disable=broad-except
        return ('raised', type(exc).__name__)


def _exec_observe(doc, res):
    from cryptoparser.common.base import Serializable
    spec = doc['subject']
    try:
        obj = _build_subject(spec)
    except (LookupError, core.HarnessError):
        raise
    except Exception as exc:  # cannot be constructed with defaults only  # pylint: disable=broad-except
        res.note('subject-unbuildable', type(exc).__name__)
        res.sched_sig = ('observe', tuple(spec[:2]), 'unbuildable')
        res.stats['observe.subject_not_constructible'] += 1
        return
    if obj is None:
        res.sched_sig = ('observe', tuple(spec[:2]), 'no-seed')
        return
    name = type(obj).__name__
    edits = []
    for edit_seed in doc.get('edits', ()):
        import random as _random
        what = edit_field(obj, _random.Random(edit_seed))
        if what:
            edits.append(what)
            res.event(name, 'edit', what)
            res.stats['probe.object_edited_before_observing'] += 1
    if doc.get('grow'):
        grown = grow_all(obj, doc['grow'])
        if grown:
            edits.append('grow_all(%d) x%d' % (doc['grow'], grown))
            res.event(name, 'edit', edits[-1])
            res.stats['probe.nested_items_grown_in_place'] += 1
    snapshot = canon(obj)
    available = _observers_of(obj)
    first = {}
    seen = []
    encoder_before = Serializable.__dict__.get('post_text_encoder')
    for call in doc['calls']:
        if call not in available:
            continue
        outcome = _outcome(_call_observer, obj, call)
        res.stats['observer.calls'] += 1
        failed = outcome[0] == 'raised'
        if failed:
            res.stats['fault.observer_call_failed'] += 1
        seen.append((call, 'raised:' + outcome[1] if failed else 'ok'))
        # repr()/str() of dependency objects may contain addresses: keep their values out of the log
        res.event(name, call, outcome[0], outcome[1] if failed else (
            None if call in ('str', 'repr') or spec[0] == 'default' else hash_of(outcome[1])))
        after = canon(obj)
        if after != snapshot:
            res.violation((PROPERTY, 'observer-changed-object', name, call, 'failed' if failed else 'ok'),
                          'an observer never changes the object, successfully or not',
                          '%s() %s; object differs from its snapshot: %s' % (
                              call, 'raised ' + outcome[1] if failed else 'returned', _first_difference(snapshot, after)))
            return
        if call in first and first[call] != outcome:
            res.violation((PROPERTY, 'observer-result-unstable', name, call),
                          'an observer returns the same result each time',
                          '%s(): first %s, later %s' % (call, _brief(first[call]), _brief(outcome)))
            return
        first.setdefault(call, outcome)
        if Serializable.__dict__.get('post_text_encoder') is not encoder_before:
            res.violation((PROPERTY, 'observer-changed-global-state', name, call),
                          'serialising leaves the class-level text encoder as it was', '%s()' % call)
            Serializable.post_text_encoder = encoder_before
            return
    if doc.get('break') is not None and first:
        _break_and_restore(obj, name, doc['break'], first, res)
        if res.violations:
            return
    res.sched_sig = ('observe', spec[0], name, tuple(seen)[:10], len(edits))
    res.nontrivial = any(outcome != 'ok' for _, outcome in seen) or len(seen) >= 3
    res.stats['runs.observe.' + spec[0]] += 1
    if spec[0] == 'client_hello' and any(o.startswith('raised') for _, o in seen):
        res.stats['probe.compose_failed_at_cipher_suite_ceiling'] += 1


def _break_and_restore(obj, name, number, first, res):
    """'Successfully or not': a caller assigns a value of the wrong type to a field (attrs does not validate
    assignments), calls the observers - most of them fail now -, puts the old value back and calls them again.
    Whatever the failed calls did, the observers return what they returned before."""
    if not attr.has(type(obj)):
        return
    fields = [f for f in attr.fields(type(obj)) if not f.name.startswith('_')]
    if not fields:
        return
    field = fields[number % len(fields)]
    candidates = [(None, 0, 'x', b'x', -1)[(number // len(fields)) % 5]]
    try:
        original = getattr(obj, field.name)
    except Exception:  # pylint: disable=broad-except
        return
    if isinstance(original, enum.Enum):
        # the textual spellings of the member instead of the member (its code, related codes of the library's string
        # enumerations): a caller's classic slip
        candidates += _related_spellings(original)
    elif type(original) is type(candidates[0]):  # pylint: disable=unidiomatic-typecheck
        candidates = [[candidates[0]]]
    for bad in candidates:
        _break_once(obj, name, field, original, bad, first, res)
        if res.violations:
            return


def _related_spellings(member):
    from simverif import wirefault
    import re
    texts = [member.name.lower()]
    code = getattr(member.value, 'code', None)
    if isinstance(code, str):
        texts.append(code.lower())
    chunks = {chunk for text in texts for chunk in re.findall(r'[a-z]+\d*|\d{3,}', text) if len(chunk) >= 3}
    out = [code] if isinstance(code, str) else []
    for token in wirefault.enum_tokens():
        spelled = token.decode('ascii').lower()
        if any(chunk in spelled for chunk in chunks) and spelled not in (item.lower() for item in out):
            out.append(token.decode('ascii'))
        if len(out) >= 4:
            break
    return out


def _break_once(obj, name, field, original, bad, first, res):
    try:
        setattr(obj, field.name, bad)
    except Exception:  # the field cannot be assigned  # pylint: disable=broad-except
        return
    failed = 0
    try:
        broken = canon(obj)
    except core.HarnessError:
        broken = None
    try:
        for call in first:
            outcome = _outcome(_call_observer, obj, call)
            failed += outcome[0] == 'raised'
            if broken is not None and canon(obj) != broken:
                res.violation((PROPERTY, 'observer-changed-object', name, call, 'failed' if outcome[0] == 'raised' else 'ok'),
                              'an observer never changes the object, successfully or not',
                              'field %s set to %r; %s() %s and the object differs from its snapshot: %s' % (
                                  field.name, bad, call, 'raised ' + str(outcome[1]) if outcome[0] == 'raised' else 'returned',
                                  _first_difference(broken, canon(obj))))
                return
    finally:
        setattr(obj, field.name, original)
    res.stats['probe.field_broken_and_restored'] += 1
    res.stats['fault.observer_call_failed'] += failed
    res.event(name, 'break-restore', field.name, failed)
    for call in first:
        outcome = _outcome(_call_observer, obj, call)
        if outcome != first[call]:
            res.violation((PROPERTY, 'observer-result-unstable', name, call, 'after-failed-calls'),
                          'an observer returns the same result each time, whether earlier calls succeeded or not',
                          '%s(): %s before; after field %s was set to %r (%d observer calls failed) and set back: %s' % (
                              call, _brief(first[call]), field.name, bad, failed, _brief(outcome)))
            return


def hash_of(value):
    import hashlib
    return hashlib.sha256(repr(value).encode('utf-8', 'backslashreplace')).hexdigest()[:12]


def _brief(outcome):
    text = repr(outcome)
    return text if len(text) < 160 else text[:160] + '...'


def _first_difference(left, right, path='obj'):
    if type(left) is not type(right) or not isinstance(left, tuple):
        return '%s: %s -> %s' % (path, _brief(left), _brief(right))
    if len(left) != len(right):
        return '%s: length %d -> %d' % (path, len(left), len(right))
    for idx, (a, b) in enumerate(zip(left, right)):
        if a != b:
            return _first_difference(a, b, '%s[%d]' % (path, idx))
    return 'no difference found'


def _shared_mutable(left, right, depth=0):
    """Class name of the first mutable object that two object graphs hold in common (by identity), or None."""
    from cryptoparser.common.base import ArrayBase
    if depth > 8:
        return None
    if left is right and is_mutable(left):
        return type(left).__name__
    pairs = []
    if attr.has(type(left)) and type(left) is type(right) and not isinstance(left, enum.Enum):
        pairs = [(getattr(left, f.name, None), getattr(right, f.name, None)) for f in attr.fields(type(left))]
    elif isinstance(left, (list, tuple, ArrayBase)) and isinstance(right, (list, tuple, ArrayBase)):
        pairs = list(zip(left, right))
    elif isinstance(left, dict) and isinstance(right, dict):
        pairs = [(left[k], right[k]) for k in left if k in right]
    for a, b in pairs:
        found = _shared_mutable(a, b, depth + 1)
        if found:
            return found
    return None


def _exec_buffer(doc, res):  # pylint: disable=too-many-branches,too-many-statements
    cls = corpus.resolve(doc['cls']) or core.get_class(doc['cls'])
    seeds = corpus.accepted(doc['cls'])
    if doc.get('made'):
        seeds = [bytes.fromhex(doc['made'])]
    if cls is None or not seeds:
        res.sched_sig = ('buffer', doc['cls'], 'no-seed')
        return
    raw = seeds[doc['seed'] % len(seeds)]
    name = cls.__name__
    entry = doc['entry']
    tail = bytes.fromhex(doc['tail']) if entry != 'parse_exact_size' else b''
    try:
        # the reference is parsed from an immutable copy of the very same bytes
        reference, consumed = cls.parse_immutable(bytes(raw + tail))
    except Exception:  # not accepted (seed no longer valid, or the tail spoils it)  # pylint: disable=broad-except
        res.sched_sig = ('buffer', name, 'seed-rejected')
        res.stats['buffer.seed_rejected'] += 1
        return
    snapshot = canon(reference)
    if entry == 'parse_exact_size' and consumed != len(raw):
        entry = 'parse_immutable'
    buf = bytearray(raw + tail)
    try:
        if entry == 'parse_mutable':
            obj = cls.parse_mutable(buf)
        elif entry == 'parse_immutable':
            obj = cls.parse_immutable(buf)[0]
        else:
            obj = cls.parse_exact_size(buf)
    except Exception as exc:  # pylint: disable=broad-except
        res.note(name, entry, 'rejected', type(exc).__name__)
        res.sched_sig = ('buffer', name, entry, 'rejected')
        res.stats['buffer.rejected_with_tail'] += 1
        return
    res.event(name, entry, 'parsed')
    if canon(obj) != snapshot:
        res.violation((PROPERTY, 'bytearray-parse-differs', name, entry),
                      'parsing from a mutable buffer yields the same object as from bytes',
                      _first_difference(snapshot, canon(obj)))
        return
    done = []
    for event in doc['events']:
        what = event['e']
        if what == 'overwrite':
            if buf:
                buf[event['at'] % len(buf)] = event['val']
        elif what == 'fill':
            for i in range(len(buf)):
                buf[i] = 0x5a
        elif what == 'clear':
            del buf[:]
        elif what == 'extend':
            buf += bytes.fromhex(event['hex'])
        elif what == 'reverse':
            buf.reverse()
        done.append(what)
        res.event(name, 'buffer', what)
        res.stats['fault.buffer_' + what] += 1
        if canon(obj) != snapshot:
            res.violation((PROPERTY, 'object-aliases-input-buffer', name, entry),
                          'consuming or overwriting the buffer afterwards cannot alter the parsed object',
                          'after buffer %s: %s' % (what, _first_difference(snapshot, canon(obj))))
            return
    # the other direction: editing the object must not write into the buffer
    watch = bytes(buf)
    edited = mutate_in_place(obj)
    if edited:
        res.event(name, 'edit', edited)
        res.stats['probe.object_edited_while_buffer_watched'] += 1
        if bytes(buf) != watch:
            res.violation((PROPERTY, 'object-edit-wrote-into-buffer', name, entry),
                          'editing a parsed object never changes the buffer it came from', edited)
            return
        # nor may it change a second object parsed from the same bytes
        if canon(reference) != snapshot:
            res.violation((PROPERTY, 'objects-share-state', _shared_mutable(obj, reference) or name),
                          'editing one parsed message never changes another parsed from the same bytes',
                          '%s: %s' % (edited, _first_difference(snapshot, canon(reference))))
            return
    res.sched_sig = ('buffer', name, entry, tuple(done), bool(edited), bool(tail))
    res.nontrivial = bool(done)
    res.stats['runs.buffer'] += 1


def _exec_defaults(doc, res):  # pylint: disable=too-many-branches
    if doc['cls'].startswith('plain:'):
        _exec_plain_defaults(doc, res)
        return
    cls = _attrs_classes()[doc['cls']]
    name = cls.__name__
    donor = _donor_for(cls)
    try:
        first, defaulted = _construct_default(cls, donor)
    except LookupError:
        res.sched_sig = ('defaults', name, 'no-donor')
        res.stats['defaults.class_without_donor(uncovered)'] += 1
        return
    except Exception as exc:  # pylint: disable=broad-except
        res.note(name, 'unbuildable', type(exc).__name__)
        res.sched_sig = ('defaults', name, 'unbuildable')
        res.stats['defaults.class_not_constructible'] += 1
        return
    pristine = {field: canon(getattr(first, field)) for field in defaulted}
    volatile = set()
    # construct a twin *before* mutating: defaults that differ between two fresh instances are volatile
    # by design (random / clock defaults) and are excluded from the equality clause (never from the
    # identity clause)
    twin, _ = _construct_default(cls, donor)
    for field in defaulted:
        if canon(getattr(twin, field)) != pristine[field]:
            volatile.add(field)
            res.stats['defaults.volatile_default_fields'] += 1
    mutated = []
    for field in defaulted:
        value = getattr(first, field)
        if not is_mutable(value):
            continue
        what = mutate_in_place(value)
        if what:
            mutated.append((field, what))
            res.event(name, field, what)
            res.stats['fault.default_mutated_in_place'] += 1
    try:
        second, _ = _construct_default(cls, donor)
    except (core.RunTimeout, KeyboardInterrupt, SystemExit, core.HarnessError):
        raise
    except BaseException as exc:  # pylint: disable=broad-except
        res.violation((PROPERTY, 'later-instance-broken-by-earlier-edit', name),
                      'editing one message never changes the defaults of later ones',
                      'after %s on the first instance, constructing a second one raised %s: %s' % (
                          mutated, type(exc).__name__, str(exc)[:200]))
        return
    for field in defaulted:
        a_value, b_value = getattr(first, field), getattr(second, field)
        if is_mutable(b_value) and a_value is b_value:
            res.violation((PROPERTY, 'shared-mutable-default', name, field),
                          'objects created with default arguments do not share mutable state',
                          'two instances hold the very same %s object in field %s' % (type(b_value).__name__, field))
            continue
        nested = _shared_mutable(a_value, b_value)
        if nested:
            # the default values are distinct objects but hold a mutable object in common further down
            res.violation((PROPERTY, 'shared-mutable-default', name, field, 'nested'),
                          'objects created with default arguments do not share mutable state',
                          'the default values of field %s of two instances are different objects that both hold the '
                          'same mutable %s object' % (field, nested))
            continue
        if field in volatile:
            continue
        if any(field == m[0] for m in mutated) and canon(b_value) != pristine[field]:
            res.violation((PROPERTY, 'default-changed-by-earlier-instance', name, field),
                          'editing one message never changes the defaults of later ones',
                          'after %s on the first instance the default of a new instance is %s (was %s)' % (
                              dict(mutated)[field], _brief(canon(b_value)), _brief(pristine[field])))
            continue
    res.sched_sig = ('defaults', name, tuple(mutated), bool(doc.get('twin')))
    res.nontrivial = bool(mutated)
    res.stats['runs.defaults'] += 1
    if not mutated:
        res.stats['defaults.no_mutable_default_fields'] += 1


def shrink(doc, sig, budget):
    me = __import__('simverif.props.c13', fromlist=['x'])
    doc = dict(doc)

    def test_with(**changes):
        cand = dict(doc)
        cand.update(changes)
        return core.has_sig(me, cand, sig)

    if doc['kind'] == 'observe':
        doc['calls'] = core.ddmin_list(doc['calls'], lambda c: bool(c) and test_with(calls=c), budget)
        if doc.get('edits'):
            doc['edits'] = core.ddmin_list(doc['edits'], lambda c: test_with(edits=c), budget)
    elif doc['kind'] == 'buffer':
        doc['events'] = core.ddmin_list(doc['events'], lambda c: test_with(events=c), budget)
        if doc.get('tail') and test_with(tail=''):
            doc['tail'] = ''
    elif doc['kind'] == 'purity':
        doc['inputs'] = core.ddmin_list(doc['inputs'], lambda c: bool(c) and test_with(inputs=c), budget)
    elif doc['kind'] == 'editsweep':
        result = core.guarded_execute(me, doc)
        for violation in result.violations:
            if violation['sig'] == sig and 'case' in violation and test_with(only=[violation['case']]):
                doc['only'] = [violation['case']]
                break
    return doc


BUDGET = {'quick': (40000, 75.0), 'thorough': (1200000, 900.0)}


def check(tier, seed):
    began = time.time()
    me = __import__('simverif.props.c13', fromlist=['x'])
    extra = prepare(tier)
    histories = core.history_batch(me, seed, tier, extra)      # first: this process has executed no run yet
    core.determinism_selftest(me, seed, tier, extra, count=60)
    n_runs, wall = BUDGET[tier]
    sweep = core.run_batch(me, seed, tier, len(corpus.class_paths()), 600.0, {'phase': 'sweep'}, chunk=4)
    pairs = core.run_batch(me, seed, tier, len(corpus.class_paths()), 600.0, {'phase': 'pairs'}, chunk=2)
    edits = core.run_batch(me, seed, tier, len(corpus.class_paths()), 900.0, {'phase': 'edits'}, chunk=2)
    batch = core.merge_batches([sweep, pairs, edits, core.run_batch(me, seed, tier, n_runs, wall, extra), histories])
    coverage = core.coverage_from_batch(
        batch, RULE,
        fault_kinds=('observer_call_failed', 'buffer_overwrite', 'buffer_fill', 'buffer_clear', 'buffer_extend',
                     'buffer_reverse', 'default_mutated_in_place'),
        probes=('compose_failed_at_cipher_suite_ceiling', 'object_edited_while_buffer_watched', 'object_edited_before_observing'),
        components={
            'real': ['observers of every corpus class (compose, ja3, hassh, fingerprints, key_tag, as_json, as_markdown, ...)',
                     'parse entry points on bytes and bytearray inputs', 'attrs constructors with default arguments'],
            'simulated': ['the caller: observer interleavings with repeats, provoked failing calls',
                          'the I/O layer: reuse of the receive bytearray after a parse', 'instance lifetimes (construct, mutate, construct)'],
            'stubbed': ['cryptodatahub.common.key datetime.now() frozen to the simulated instant'],
        },
        extra={'attrs_classes_with_defaults': len(_attrs_classes()), 'classes_in_corpus': len(corpus.class_paths()),
               'not_included': 'pre-emptive thread interleaving of observers (the property speaks of calls in any order, '
                               'not of concurrent callers; the library documents no thread safety)'})
    assumptions = [
        'object equality is canon() equality over public fields',
        'mutable = list, bytearray, dict, set, library vector, non-frozen attrs instance',
        'sampling: a clean batch is evidence, not proof',
    ]
    return core.report_and_exit(me, batch, seed, tier, coverage, assumptions, LEVEL, began)
