# -*- coding: utf-8 -*-
"""C12 - length-prefixed vectors stay within bounds through any edit sequence.

objsim: a seeded history of sequence operations is applied to a live protocol vector and to a
plain list (the reference model).  Refused edits are part of the history: start vectors are
biased to both size bounds and bounds are approached deliberately."""

import time

from simverif import core, corpus

PROPERTY = 'C12'
LEVEL = 'exploration'

OPS = ('append', 'insert', 'extend', 'iadd', 'pop', 'popat', 'remove', 'del', 'delslice', 'set', 'setslice',
       'reverse', 'clear')

RULE = (
    'one evaluation = one history: a valid start vector of one of the concrete vector classes (items from parsed '
    'corpus vectors, enum members, fallback/GREASE objects; start sizes biased to min, min+1 item, max-1 item, max, '
    'bulk near-maximum) followed by 1-30 operations from %s with integer and slice positions (negative and out of '
    'range included), then a fill/drain probe on small-bounded vectors. After every operation the vector is compared '
    'with a plain list that received the same operation. Signature = (class, op-kind sequence, outcome-class '
    'sequence); non-trivial = at least one refused operation, one slice or bulk operation, or >= 3 operations.'
    % '/'.join(OPS)
)

_CLASSES = None     # path -> dict(cls, pool, kind, ...)


def _all_subclasses(cls):
    for sub in cls.__subclasses__():
        yield sub
        for deeper in _all_subclasses(sub):
            yield deeper


def _enum_members(factory):
    try:
        return list(factory.get_enum_class())
    except Exception:  # pylint: disable=broad-except
        return []


def _item_wire_size(info, item):
    """Encoded size of one item, written from the wire formats (independent of get_item_size)."""
    kind = info['kind']
    if kind == 'numeric':
        return info['param'].item_size
    if kind == 'opaque':
        return 1
    if kind == 'enum_numeric':
        return info['code_size']
    if kind == 'enum_string':
        return info['name_prefix'] + len(item.value.code.encode('utf-8'))
    if kind == 'string':
        if isinstance(item, str):
            return len(item.encode('ascii', 'replace'))
        if hasattr(item, 'compose'):
            return len(item.compose())
        if hasattr(item, 'value') and hasattr(item.value, 'code'):
            return len(item.value.code)
        return len(str(item))
    if kind in ('parsable', 'list'):
        return len(item.compose())
    raise core.HarnessError('no size model for kind %r' % kind)


def wire_size(info, items):
    cache = info.get('size_by_id')
    if cache is not None:
        total = 0
        for item in items:
            size = cache.get(id(item))
            total += size if size is not None else _item_wire_size(info, item)
    else:
        total = sum(_item_wire_size(info, item) for item in items)
    if info['kind'] == 'string' and len(items) > 1:
        total += len(items) - 1          # separators are part of the encoded body
    return total


def _classify_param(cls, param):
    from cryptoparser.common import base
    name = type(param).__name__
    if isinstance(param, base.OpaqueParam):
        return 'opaque'
    if isinstance(param, base.VectorParamNumeric):
        return 'numeric'
    if isinstance(param, base.VectorParamString):
        return 'string'
    if isinstance(param, base.VectorParamEnumCodeNumeric):
        return 'enum_numeric'
    if isinstance(param, base.VectorParamEnumCodeString):
        return 'enum_string'
    if isinstance(param, base.VectorParamParsable):
        return 'parsable'
    if isinstance(param, base.ListParamParsable):
        return 'list'
    raise core.HarnessError('vector class %s has an unknown parameter kind %s' % (cls.__name__, name))


def _build_pool(cls, param, kind):  # pylint: disable=too-many-branches
    import enum
    pool = []
    path = core.class_path(cls)
    for _, vec in corpus.objects(path):
        pool.extend(list(vec))
    if kind in ('numeric', 'opaque'):
        numeric_class = getattr(param, 'numeric_class', int)
        if isinstance(numeric_class, type) and issubclass(numeric_class, enum.Enum):
            pool.extend(list(numeric_class))
        else:
            top = 256 ** param.item_size
            pool.extend(sorted({0, 1, 2, 0x7f, 0x80, top - 1, top // 2, 65 % top, 97 % top}))
    elif kind == 'enum_numeric':
        pool.extend(_enum_members(param.item_class)[:300])
        if isinstance(param.fallback_class, type):
            for _, obj in corpus.objects(core.class_path(param.fallback_class)):
                pool.append(obj)
            try:
                pool.append(param.fallback_class(0x0a0a if param.fallback_class.get_byte_num() == 2 else 0x0b))
                pool.append(param.fallback_class(0xfe if param.fallback_class.get_byte_num() == 1 else 0xfefe))
            except Exception:  # pylint: disable=broad-except
                pass
    elif kind == 'enum_string':
        pool.extend(_enum_members(param.item_class))
    elif kind == 'string':
        if isinstance(param.item_class, type) and issubclass(param.item_class, enum.Enum):
            pool.extend(list(param.item_class)[:120])
        if param.fallback_class is str:
            pool.extend(['x-unknown@example.com', 'a', 'zz-long-' + 'n' * 60])
    elif kind in ('parsable', 'list'):
        for klass in (param.item_class, param.fallback_class):
            if isinstance(klass, type):
                for _, obj in corpus.objects(core.class_path(klass)):
                    pool.append(obj)
                # items derived from the seeds by editing fields (e.g. an SCT with non-empty extensions)
                for raw in [v for v in corpus.variants(core.class_path(klass)) if len(v) <= 2048][:12]:
                    try:
                        pool.append(klass.parse_exact_size(raw))
                    except Exception:  # pylint: disable=broad-except
                        continue
        name = cls.__name__
        if name == 'TlsCertificates':
            from cryptoparser.tls.subprotocol import TlsCertificate
            pool.extend([TlsCertificate(b''), TlsCertificate(b'c' * 1), TlsCertificate(b'k' * 300)])
        elif name == 'TlsDistinguishedNameVector':
            from cryptoparser.tls.subprotocol import TlsDistinguishedName
            pool.extend([TlsDistinguishedName([1]), TlsDistinguishedName(list(range(40)))])
        elif name == 'TlsCertificateStatusRequestResponderIdList':
            from cryptoparser.tls.extension import TlsCertificateStatusRequestResponderId
            pool.extend([TlsCertificateStatusRequestResponderId([7]), TlsCertificateStatusRequestResponderId(list(range(20)))])
    # de-duplicate by identity, keep order
    seen, out = set(), []
    for item in pool:
        if id(item) in seen:
            continue
        seen.add(id(item))
        out.append(item)
    return out


def classes():
    global _CLASSES  # pylint: disable=global-statement
    if _CLASSES is not None:
        return _CLASSES
    from cryptoparser.common import base
    found = {}
    for cls in _all_subclasses(base.ArrayBase):
        if not cls.__module__.startswith('cryptoparser.'):
            continue
        if issubclass(cls, base.OpaqueEnumParsable):
            continue        # enum factories that only borrow the vector parser; never instantiated as vectors
        try:
            param = cls.get_param()
        except Exception:  # abstract  # pylint: disable=broad-except
            continue
        found[core.class_path(cls)] = (cls, param)
    out = {}
    for path in sorted(found):
        cls, param = found[path]
        kind = _classify_param(cls, param)
        info = {'cls': cls, 'param': param, 'kind': kind, 'path': path}
        if kind == 'enum_numeric':
            info['code_size'] = param.fallback_class.get_byte_num() if isinstance(param.fallback_class, type) else \
                param.item_class.get_byte_num()
        if kind == 'enum_string':
            info['name_prefix'] = param.item_class.get_param().item_num_size
        pool = _build_pool(cls, param, kind)
        usable = []
        for item in pool:
            try:
                _item_wire_size(info, item)
                usable.append(item)
            except core.HarnessError:
                raise
            except Exception:  # pylint: disable=broad-except
                continue
        info['pool'] = usable
        info['sizes'] = [_item_wire_size(info, item) for item in usable]
        info['size_by_id'] = {id(item): size for item, size in zip(usable, info['sizes'])}
        info['has_prefix'] = param.item_num_size > 0
        # can this class compose standalone?  (decided once, on its parsed corpus vectors)
        composable = None
        for _, vec in corpus.objects(path):
            try:
                vec.compose()
                composable = True if composable is None else composable
            except Exception:  # pylint: disable=broad-except
                composable = False
        info['composable'] = bool(composable)
        if composable:
            # a class whose compose() emits the bare body (fixed-size field without a length prefix)
            for _, vec in corpus.objects(path):
                if len(vec.compose()) == wire_size(info, list(vec)) and len(vec):
                    info['has_prefix'] = False
        out[path] = info
    _CLASSES = out
    return out


_REFERENCE_BOUNDS = None


def reference_bounds():
    """Committed table {class path: [min octets, max octets, width of the length prefix]}: the bounds of the wire
    formats as the pinned tree declares them (trusted as the specifications' bounds).  The vectors are judged against
    the bounds the tree under test declares; a declaration that became *looser* than the reference is itself a way of
    leaving the bounds."""
    global _REFERENCE_BOUNDS  # pylint: disable=global-statement
    if _REFERENCE_BOUNDS is None:
        import json
        import os
        with open(os.path.join(core.VERIF_DIR, 'corpus', 'vector_bounds.json')) as handle:
            _REFERENCE_BOUNDS = json.load(handle)
    return _REFERENCE_BOUNDS


def prepare(tier):  # pylint: disable=unused-argument
    corpus.warm_variants()
    classes()
    reference_bounds()
    return None


# ---------------------------------------------------------------- generation

def _start_items(rng, info):
    """Indices into the pool for a valid start vector, biased to the bounds."""
    param = info['param']
    pool_n = len(info['pool'])
    sizes = info['sizes']
    lo, hi = param.min_byte_num, param.max_byte_num
    roll = rng.random()
    positive = [i for i in range(pool_n) if sizes[i] > 0]
    if not positive:
        return []
    smallest = min(positive, key=lambda i: sizes[i])
    near_max_ok = hi <= 300 or (hi <= 70000 and rng.random() < 0.12)
    if roll < 0.25:
        target = lo
    elif roll < 0.40:
        target = lo + sizes[smallest]
    elif roll < 0.60 and near_max_ok:
        target = hi
    elif roll < 0.75 and near_max_ok:
        target = hi - sizes[smallest]
    elif roll < 0.80 and near_max_ok:
        target = hi - rng.randrange(0, 6)
    else:
        target = rng.randrange(lo, min(hi, lo + 400) + 1)
    items, total = [], 0
    separator = 1 if info['kind'] == 'string' else 0
    guard = 0
    while total < target and guard < 5000:
        guard += 1
        remaining = target - total - (separator if items else 0)
        if remaining <= 0:
            break
        if remaining > 400:
            # bulk: repeat one item many times
            idx = rng.choice(positive)
            if sizes[idx] > remaining:
                idx = smallest
            count = max(1, min((remaining - 200) // (sizes[idx] + separator), rng.choice((5, 50, 1000, 10 ** 6))))
        else:
            fitting = [i for i in positive if sizes[i] <= remaining]
            if not fitting:
                break
            idx = rng.choice(fitting)
            count = 1
        for _ in range(count):
            items.append(idx)
            total += sizes[idx] + (separator if len(items) > 1 else 0)
    return items


def _rand_index(rng, length):
    roll = rng.random()
    if roll < 0.6 and length:
        return rng.randrange(length)
    if roll < 0.8:
        return -rng.randrange(1, length + 2)
    return rng.choice((length, length + 1, length + 5, 0))


def _rand_slice(rng, length):
    def edge():
        return rng.choice((None, 0, 1, -1, length, length + 2, rng.randrange(-length - 1, length + 2) if length else 0))
    step = rng.choice((None, None, None, 1, 2, 2, -1, 3, -2))
    return [edge(), edge(), step]


def generate(rng, index, tier, extra):  # pylint: disable=unused-argument
    infos = classes()
    usable = [p for p in sorted(infos) if infos[p]['pool']]
    path = rng.choice(usable)
    info = infos[path]
    pool_n = len(info['pool'])
    start = _start_items(rng, info)
    length = len(start)
    ops = []
    for _ in range(rng.choice((1, 2, 3, 5, 8, 12, 20, 30))):
        op = rng.choice(OPS)
        item = rng.randrange(pool_n)
        if op == 'append':
            ops.append({'op': op, 'item': item})
            length += 1
        elif op == 'insert':
            ops.append({'op': op, 'at': _rand_index(rng, length), 'item': item})
            length += 1
        elif op in ('extend', 'iadd'):
            count = rng.choice((0, 1, 2, 3, 8, 40))
            ops.append({'op': op, 'items': [rng.randrange(pool_n) for _ in range(count)]})
            length += count
        elif op == 'pop':
            ops.append({'op': op})
            length = max(0, length - 1)
        elif op in ('popat', 'del'):
            ops.append({'op': op, 'at': _rand_index(rng, length)})
            length = max(0, length - 1)
        elif op == 'remove':
            ops.append({'op': op, 'item': rng.choice(start) if start and rng.random() < 0.7 else item})
            length = max(0, length - 1)
        elif op == 'delslice':
            ops.append({'op': op, 'slice': _rand_slice(rng, length)})
        elif op == 'set':
            ops.append({'op': op, 'at': _rand_index(rng, length), 'item': item})
        elif op == 'setslice':
            count = rng.choice((0, 1, 2, 3))
            bounds = _rand_slice(rng, length)
            if bounds[2] not in (None, 1) and rng.random() < 0.8:
                # an extended slice only takes as many items as it has positions (tracked length; a guess when
                # earlier edits were refused)
                count = len(range(*slice(*bounds).indices(length)))
            ops.append({'op': op, 'slice': bounds, 'items': [rng.randrange(pool_n) for _ in range(count)]})
            if bounds[2] in (None, 1):
                span = len(range(*slice(*bounds).indices(length)))
                length = max(0, length - span + count)
        else:
            ops.append({'op': op})
            if op == 'clear':
                length = 0
    if info['kind'] != 'list' and rng.random() < 0.25:
        # a wrong-valued item offered somewhere in the history
        ops.insert(rng.randrange(len(ops) + 1), {'op': 'append', 'item': 0, 'bad': rng.choice(('big', 'neg', 'str', 'float'))})
    for op in ops:
        if 'items' in op and rng.random() < 0.3:
            op['as'] = rng.choice(('tuple', 'iter', 'gen'))
        if 'at' in op and rng.random() < 0.05:
            op['at'] = {'bad': rng.choice(sorted(BAD_POSITIONS))}
    twin = rng.random() < 0.25
    if twin:
        # a second vector built from the first one (as attrs converters do); both are edited
        for op in ops:
            op['on'] = rng.randrange(2)
    return {'kind': 'vec', 'cls': path, 'start': start, 'ops': ops, 'probe': rng.random() < 0.5, 'twin': twin}


# ---------------------------------------------------------------- execution

BAD_POSITIONS = {'none': None, 'str': '0', 'float': 1.0, 'list': [0], 'big': 2 ** 70, 'negbig': -2 ** 70}


def _position(op):
    """The position operand: an integer, or (injected fault) a value a caller passes by mistake - a plain list refuses
    the wrong types with TypeError and clamps or refuses the huge integers."""
    at = op['at']
    return BAD_POSITIONS[at['bad']] if isinstance(at, dict) else at


def _operand(op, pool):
    """The items of a bulk operation, handed over the way the schedule says: a list, a tuple, or a one-shot
    iterable (generator / iterator), which a plain list accepts just the same."""
    items = [pool[i] for i in op['items']]
    how = op.get('as', 'list')
    if how == 'tuple':
        return tuple(items)
    if how == 'iter':
        return iter(items)
    if how == 'gen':
        return (item for item in items)
    return items


def _apply(target, op, pool):
    kind = op['op']
    if kind == 'append':
        return target.append(pool[op['item']])
    if kind == 'insert':
        return target.insert(_position(op), pool[op['item']])
    if kind == 'extend':
        return target.extend(_operand(op, pool))
    if kind == 'iadd':
        target += _operand(op, pool)
        return None
    if kind == 'pop':
        return target.pop()
    if kind == 'popat':
        return target.pop(_position(op))
    if kind == 'remove':
        return target.remove(pool[op['item']])
    if kind == 'del':
        del target[_position(op)]
        return None
    if kind == 'delslice':
        del target[slice(*op['slice'])]
        return None
    if kind == 'set':
        target[_position(op)] = pool[op['item']]
        return None
    if kind == 'setslice':
        target[slice(*op['slice'])] = _operand(op, pool)
        return None
    if kind == 'reverse':
        return target.reverse()
    if kind == 'clear':
        return target.clear()
    raise core.HarnessError('unknown op %r' % kind)


def _same(left, right):
    if len(left) != len(right):
        return False
    for a, b in zip(left, right):
        if a is b:
            continue
        try:
            if type(a) is type(b) and a == b:
                continue
        except Exception:  # pylint: disable=broad-except
            pass
        return False
    return True


def _is_length_error(exc):
    from cryptoparser.common.exception import InvalidDataLength
    return isinstance(exc, InvalidDataLength)


def _check_state(res, info, vector, model, when, force_compose=False):
    """Clauses that must hold after every operation (compose() of large vectors only at the
    start, at the end and after a refused edit: it is linear in the vector)."""
    name = info['cls'].__name__
    param = info['param']
    if not _same(list(vector), model):
        res.violation((PROPERTY, 'contents-differ-from-list', name, when), 'vector holds exactly what a plain list would hold',
                      'vector has %d items, list model has %d' % (len(vector), len(model)))
        return False
    if len(vector) != len(model):
        res.violation((PROPERTY, 'len-differs', name, when), 'len() must match the list model', '')
        return False
    size = wire_size(info, model)
    if info['kind'] != 'list' and not param.min_byte_num <= size <= param.max_byte_num:
        res.violation((PROPERTY, 'size-out-of-bounds', name, when), 'encoded body size within [min, max]',
                      'encoded body is %d bytes, bounds are [%d, %d] (%d items)' % (
                          size, param.min_byte_num, param.max_byte_num, len(model)))
        return False
    if name == 'TlsCipherSuiteVector' and (force_compose or len(model) <= 64):
        # this vector composes only inside its message: judge the prefix the enclosing client hello emits
        problem = _enclosing_hello_prefix(vector, model)
        if problem:
            res.violation((PROPERTY, 'prefix-differs-from-body', name, 'in-client-hello'),
                          'composed prefix equals the number of body bytes', problem)
            return False
    if info.get('composable') and info['has_prefix'] and (force_compose or len(model) <= 200):
        try:
            composed = bytes(vector.compose())
        except (core.RunTimeout, KeyboardInterrupt, SystemExit):
            raise
        except BaseException as exc:  # pylint: disable=broad-except
            res.violation((PROPERTY, 'compose-failed', name, type(exc).__name__),
                          'the length prefix always fits and compose succeeds on a vector within bounds',
                          'compose() raised %s: %s (body %d bytes)' % (type(exc).__name__, str(exc)[:100], size))
            return False
        width = param.item_num_size
        prefix = int.from_bytes(composed[:width], 'big')
        if prefix != len(composed) - width:
            res.violation((PROPERTY, 'prefix-differs-from-body', name), 'composed prefix equals the number of body bytes',
                          'prefix says %d, %d bytes follow' % (prefix, len(composed) - width))
            return False
        if len(composed) - width != size:
            res.violation((PROPERTY, 'size-model-disagrees', name), 'encoded body size equals the wire-format size model',
                          'compose() emitted %d body bytes, the size model says %d' % (len(composed) - width, size))
            return False
    return True


def _enclosing_hello_prefix(vector, model):
    """Compose a client hello around the cipher suite vector; returns a problem description or None."""
    import datetime
    from cryptoparser.tls.subprotocol import (
        TlsHandshakeClientHello, TlsHandshakeHelloRandom, TlsHandshakeHelloRandomBytes)
    try:
        hello = TlsHandshakeClientHello(
            cipher_suites=list(vector), session_id=[], fallback_scsv=False, empty_renegotiation_info_scsv=False,
            random=TlsHandshakeHelloRandom(datetime.datetime(2024, 1, 15), TlsHandshakeHelloRandomBytes(bytearray(28))))
        composed = bytes(hello.compose())
    except (core.RunTimeout, KeyboardInterrupt, SystemExit):
        raise
    except BaseException as exc:  # pylint: disable=broad-except
        return 'a client hello around %d suites could not be composed: %s' % (len(model), type(exc).__name__)
    offset = 4 + 2 + 32 + 1
    prefix = int.from_bytes(composed[offset:offset + 2], 'big')
    if prefix != 2 * len(model):
        return 'client hello announces %d bytes of cipher suites for %d suites' % (prefix, len(model))
    # body of the vector, then one compression method vector (1 + 1 bytes) end the message
    if len(composed) != offset + 2 + prefix + 2:
        return 'client hello is %d bytes, expected %d for %d suites' % (len(composed), offset + 2 + prefix + 2, len(model))
    expected = b''.join(item.value.code.to_bytes(2, 'big') for item in model)
    if composed[offset + 2:offset + 2 + prefix] != expected:
        return 'cipher suite codes in the composed client hello differ from the vector\'s items'
    return None


def execute(doc):  # pylint: disable=too-many-branches,too-many-statements
    res = core.Result()
    info = classes()[doc['cls']]
    cls, pool, param = info['cls'], info['pool'], info['param']
    name = cls.__name__
    model = [pool[i] for i in doc['start']]
    try:
        vector = cls(list(model))
    except (core.RunTimeout, KeyboardInterrupt, SystemExit):
        raise
    except BaseException as exc:  # pylint: disable=broad-except
        size = wire_size(info, model)
        if param.min_byte_num <= size <= param.max_byte_num:
            res.note('construct-refused', type(exc).__name__)
            res.stats['start.valid_vector_refused_by_constructor'] += 1
        res.sched_sig = ('vec', name, 'construct-refused')
        return res
    ok = _check_state(res, info, vector, model, 'start', True)
    primary_vector, primary_model = vector, model
    twin_vector, twin_model = None, None
    if doc.get('twin'):
        try:
            twin_vector = cls(vector)
            twin_model = list(model)
            res.stats['probe.twin_vector_built_from_vector'] += 1
        except (core.RunTimeout, KeyboardInterrupt, SystemExit):
            raise
        except BaseException as exc:  # pylint: disable=broad-except
            res.note('twin-refused', type(exc).__name__)
    outcomes = []
    clauses = set()
    lo, hi = param.min_byte_num, param.max_byte_num
    reference = reference_bounds().get(doc['cls'])
    if reference is not None and (lo < reference[0] or hi > reference[1] or param.item_num_size != reference[2]):
        res.violation((PROPERTY, 'declared-bounds-looser-than-reference', name),
                      'the encoded size stays within the bounds of the wire format',
                      '%s declares [%d, %d] octets with a %d-octet prefix; the reference table says [%d, %d] with a '
                      '%d-octet prefix' % (name, lo, hi, param.item_num_size, reference[0], reference[1], reference[2]))
        ok = False
    for step, op in enumerate(doc['ops']):
        if not ok:
            break
        if twin_vector is not None:
            # park the state of the vector edited last, select the target of this operation
            if op.get('on'):
                if vector is primary_vector:
                    primary_model = model
                    vector, model = twin_vector, twin_model
            elif vector is twin_vector:
                twin_model = model
                vector, model = primary_vector, primary_model
        if op.get('bad'):
            # an item of the wrong value / type is offered (a caller's mistake): the vector may take it (it is taken
            # out again at once) or refuse it - a refused edit changes nothing, the byte counter included
            bad = {'big': 1 << 72, 'neg': -1, 'str': 'x', 'float': 1.5}[op['bad']]
            before = list(vector)
            try:
                vector.append(bad)
                taken = True
            except (core.RunTimeout, KeyboardInterrupt, SystemExit, core.HarnessError):
                raise
            except BaseException as raised:  # pylint: disable=broad-except
                taken = False
                res.event(name, 'append-bad', 'raised:' + type(raised).__name__, len(vector))
            res.stats['fault.bad_item_offered'] += 1
            if taken:
                res.event(name, 'append-bad', 'ok', len(vector))
                try:
                    vector.pop()
                except BaseException:  # pylint: disable=broad-except
                    del vector._items[-1:]  # pylint: disable=protected-access
            if not _same(list(vector), before):
                res.violation((PROPERTY, 'failed-edit-changed-vector', name, 'append-bad'),
                              'a refused or failed edit changes nothing', 'op %d %r' % (step, op))
                ok = False
                break
            outcomes.append('bad-item')
            continue
        new_model = list(model)
        try:
            model_value = _apply(new_model, op, pool)
            model_exc = None
        except Exception as exc:  # pylint: disable=broad-except
            model_exc = exc
            model_value = None
        before = list(vector)
        try:
            value = _apply(vector, op, pool)
            exc = None
        except (core.RunTimeout, KeyboardInterrupt, SystemExit, core.HarnessError):
            raise
        except BaseException as raised:  # pylint: disable=broad-except
            exc = raised
            value = None
        kind = op['op']
        if kind in ('delslice', 'setslice'):
            clauses.add('slice')
        if kind in ('extend', 'iadd', 'clear', 'reverse'):
            clauses.add('bulk')
        if exc is None:
            outcomes.append('ok')
            res.event(name, kind, 'ok', len(vector))
            if model_exc is not None:
                res.violation((PROPERTY, 'accepted-what-list-rejects', name, kind), 'vector behaves like a plain list',
                              'op %d %r succeeded on the vector but the list raised %s' % (step, op, type(model_exc).__name__))
                ok = False
                break
            if kind in ('pop', 'popat') and not _same([value], [model_value]):
                res.violation((PROPERTY, 'pop-returned-other-item', name), 'vector behaves like a plain list', 'op %d' % step)
                ok = False
                break
            model = new_model
            ok = _check_state(res, info, vector, model, kind)
            if ok and twin_vector is not None:
                other, other_model = (primary_vector, primary_model) if vector is twin_vector else (twin_vector, twin_model)
                if not _same(list(other), other_model):
                    res.violation((PROPERTY, 'vectors-share-items', name, kind),
                                  'a vector holds exactly the items a plain list would hold after the edits made to it',
                                  'op %d %r on one vector changed another vector built from it (%d items, its model has %d)' % (
                                      step, op, len(other), len(other_model)))
                    ok = False
                    break
        else:
            length_error = _is_length_error(exc)
            outcomes.append('refused' if length_error else 'raised:' + type(exc).__name__)
            res.event(name, kind, outcomes[-1], len(vector))
            if length_error:
                new_size = wire_size(info, new_model) if model_exc is None else None
                if new_size is not None and new_size < lo:
                    clauses.add('refused-at-min')
                    res.stats['probe.refused_at_min'] += 1
                elif new_size is not None and new_size > hi:
                    clauses.add('refused-at-max')
                    res.stats['probe.refused_at_max'] += 1
                else:
                    res.stats['note.in_bounds_edit_refused(not demanded)'] += 1
            elif model_exc is None:
                new_size = wire_size(info, new_model)
                if info['kind'] != 'list' and not lo <= new_size <= hi:
                    res.violation((PROPERTY, 'refused-with-wrong-error', name, kind, type(exc).__name__),
                                  'an edit that would leave the bounds is refused with a data-length error',
                                  'op %d %r would give %d bytes (bounds [%d, %d]) and raised %s: %s' % (
                                      step, op, new_size, lo, hi, type(exc).__name__, str(exc)[:100]))
                    ok = False
                    break
                res.stats['note.in_bounds_edit_raised_other(not demanded)'] += 1
            # a failed edit changes nothing
            if not _same(list(vector), before):
                res.violation((PROPERTY, 'failed-edit-changed-vector', name, kind),
                              'a refused or failed edit changes nothing',
                              'op %d %r raised %s and left %d items (had %d)' % (
                                  step, op, type(exc).__name__, len(vector), len(before)))
                ok = False
                break
            ok = _check_state(res, info, vector, model, kind + '-failed', True)
    if ok and doc.get('probe') and info['kind'] != 'list' and hi <= 300 and info['pool']:
        # fill / drain: makes drifted bookkeeping observable through accepted edits
        clauses.add('probe')
        smallest = min(range(len(pool)), key=lambda i: info['sizes'][i])
        for _ in range(hi + 2):
            try:
                vector.append(pool[smallest])
            except Exception:  # pylint: disable=broad-except
                break
            model.append(pool[smallest])
            if not _check_state(res, info, vector, model, 'fill'):
                ok = False
                break
        guard = 0
        while ok and guard < hi + 300:
            guard += 1
            try:
                vector.pop()
            except Exception:  # pylint: disable=broad-except
                break
            model.pop()
            if not _check_state(res, info, vector, model, 'drain'):
                ok = False
                break
        res.stats['probe.fill_drain'] += 1
    if ok:
        ok = _check_state(res, info, vector, model, 'end', True)
    res.sched_sig = ('vec', name, tuple(op['op'] for op in doc['ops'])[:12], tuple(outcomes)[:12], tuple(sorted(clauses)))
    res.nontrivial = any(o != 'ok' for o in outcomes) or bool(clauses) or len(doc['ops']) >= 3
    res.stats['runs.kind.' + info['kind']] += 1
    res.stats['ops.executed'] += len(outcomes)
    res.stats['ops.refused'] += sum(1 for o in outcomes if o == 'refused')
    if len(doc['start']) > 1000:
        res.stats['probe.bulk_start_vector'] += 1
    return res


def shrink(doc, sig, budget):
    me = __import__('simverif.props.c12', fromlist=['x'])
    doc = dict(doc)

    def test_with(**changes):
        cand = dict(doc)
        cand.update(changes)
        return core.has_sig(me, cand, sig)

    doc['ops'] = core.ddmin_list(doc['ops'], lambda c: test_with(ops=c), budget)
    if doc.get('probe') and test_with(probe=False):
        doc['probe'] = False
    doc['start'] = core.ddmin_list(doc['start'], lambda c: test_with(start=c), budget)
    return doc


BUDGET = {'quick': (60000, 75.0), 'thorough': (3000000, 900.0)}


def check(tier, seed):
    began = time.time()
    me = __import__('simverif.props.c12', fromlist=['x'])
    extra = prepare(tier)
    histories = core.history_batch(me, seed, tier, extra)      # first: this process has executed no run yet
    core.determinism_selftest(me, seed, tier, extra, count=60)
    n_runs, wall = BUDGET[tier]
    batch = core.merge_batches([core.run_batch(me, seed, tier, n_runs, wall, extra), histories])
    infos = classes()
    coverage = core.coverage_from_batch(
        batch, RULE, fault_kinds=(),
        probes=('refused_at_min', 'refused_at_max', 'fill_drain', 'bulk_start_vector'),
        components={
            'real': ['every concrete ArrayBase subclass of the library, driven through its MutableSequence interface',
                     'compose() of vectors that compose standalone'],
            'simulated': ['operation histories (the caller)', 'plain-list reference model', 'wire-format size model per parameter kind'],
            'stubbed': [],
        },
        extra={
            'fault_injection': 'failing operations are the injected faults: edits that cross a size bound (counted as '
                               'refused_at_min / refused_at_max) and list-level errors (bad index, missing value)',
            'faults_fired': {'refused_at_min': batch.stats.get('probe.refused_at_min', 0),
                             'refused_at_max': batch.stats.get('probe.refused_at_max', 0),
                             'ops_refused_total': batch.stats.get('ops.refused', 0)},
            'vector_classes': len(infos),
            'vector_classes_without_items(uncovered)': sorted(p for p in infos if not infos[p]['pool']),
            'vector_classes_not_composable_standalone': sorted(
                infos[p]['cls'].__name__ for p in infos if infos[p].get('composable') is False),
        })
    assumptions = [
        'the per-kind wire size model is written from the wire formats, not from get_item_size()',
        'not demanded: that every in-bounds edit is accepted, or which exception an ill-typed item produces',
        'sampling: a clean batch is evidence, not proof',
    ]
    return core.report_and_exit(me, batch, seed, tier, coverage, assumptions, LEVEL, began)
