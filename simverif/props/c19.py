# -*- coding: utf-8 -*-
"""C19 - parsing work is bounded linearly by the input size (bounded liveness on a virtual clock).

The clock is sys.monitoring LINE events inside repo code: exact and machine independent.
(i)  absolute bound on every call of every faulted input: steps <= A*len + B, depth <= D;
(ii) scaling: for each scalable shape at sizes n, 2n, 4n, 8n, 16n the local growth exponent
     log2(steps(2m)/steps(m)) at the two largest scales must stay <= 1.25;
(iii) allocation: tracemalloc peak <= C*len + E for hostile length / count fields."""

import math
import time
import tracemalloc

from simverif import core, corpus, oracles, stepclock, wire, wirefault, workload

PROPERTY = 'C19'
LEVEL = 'exploration'

A_STEPS_PER_BYTE = 4000
B_STEPS = 150000
D_DEPTH = 150
MAX_EXPONENT = 1.25
C_ALLOC_PER_BYTE = 2048
E_ALLOC = 8 * 1024 * 1024

RULE = (
    'three kinds of evaluation: (fuzz) one faulted datagram of a corpus class or one faulted record stream, every '
    'library call measured on the step clock against steps <= %d*len + %d and depth <= %d; (scale) one scalable '
    'shape measured at 5 sizes n..16n, growth exponent at the two largest doublings <= %.2f; (alloc) one input with '
    'a hostile length/count field under tracemalloc, peak <= %d*len + %d bytes. Signature = (kind, class or shape, '
    'fault kinds fired, outcome class, log2 bucket of steps per byte); non-trivial = a fault fired or a scaling shape.'
    % (A_STEPS_PER_BYTE, B_STEPS, D_DEPTH, MAX_EXPONENT, C_ALLOC_PER_BYTE, E_ALLOC)
)


# --------------------------------------------------------------------------------------
# scalable shapes: name -> (class path, builder(k) -> bytes, base k)
# --------------------------------------------------------------------------------------

def _u16(n):
    return min(n, 0xffff).to_bytes(2, 'big')      # (scaling shapes: a saturated length field keeps the shape well defined)


def _u24(n):
    return min(n, 0xffffff).to_bytes(3, 'big')


def _u32(n):
    return n.to_bytes(4, 'big')


def _client_hello(suites=b'\x00\x2f', extensions=b''):
    body = b'\x03\x03' + bytes(32) + b'\x00' + _u16(len(suites)) + suites + b'\x01\x00'
    if extensions:
        body += _u16(len(extensions)) + extensions
    return b'\x01' + _u24(len(body)) + body


def _groups_and_key_shares(count):
    count = min(count, 9000)
    groups = [0x1a1b + number for number in range(count)]          # unassigned code points, pairwise different
    offered = b''.join(_u16(group) for group in groups)
    shares = b''.join(_u16(group) + b'\x00\x01\x00' for group in groups)
    return (b'\x00\x0a' + _u16(len(offered) + 2) + _u16(len(offered)) + offered +
            b'\x00\x33' + _u16(len(shares) + 2) + _u16(len(shares)) + shares)


def _kexinit(lists):
    out = b'\x14' + bytes(16)
    for names in lists:
        out += _u32(len(names)) + names
    return out + b'\x00' + _u32(0)


def _ssh_string(data):
    return _u32(len(data)) + data


H = 'cryptoparser.httpx.header.'
T = 'cryptoparser.dnsrec.txt.'

SHAPES = {
    'http_known_headers': (H + 'HttpHeaderFields', lambda k: b'Server: nginx\r\n' * k + b'\r\n', 40),
    'http_unknown_headers': (H + 'HttpHeaderFields', lambda k: b''.join(b'X-Custom-%d: value\r\n' % i for i in range(k)) + b'\r\n', 40),
    'http_sts_headers': (H + 'HttpHeaderFields', lambda k: b'Strict-Transport-Security: max-age=1; includeSubDomains\r\n' * k + b'\r\n', 20),
    'http_one_huge_value': (H + 'HttpHeaderFields', lambda k: b'Server: ' + b'a' * (k * 40) + b'\r\n\r\n', 40),
    'http_no_separator': (H + 'HttpHeaderFields', lambda k: b'a' * (k * 40), 40),
    'http_only_crlf': (H + 'HttpHeaderFields', lambda k: b'\r\n' * (k * 10), 40),
    'http_colons': (H + 'HttpHeaderFields', lambda k: b':' * (k * 20) + b'\r\n\r\n', 40),
    'csp_directives': (H + 'HttpHeaderFieldValueContentSecurityPolicy',
                       lambda k: b'; '.join(b"img-src 'self' https://example.com" for _ in range(k)), 20),
    'csp_sources': (H + 'HttpHeaderFieldValueContentSecurityPolicy',
                    lambda k: b"default-src " + b' '.join(b'https://h%d.example.com' % i for i in range(k)), 30),
    'csp_semicolons': (H + 'HttpHeaderFieldValueContentSecurityPolicy', lambda k: b';' * (k * 20), 40),
    'csp_spaces': (H + 'HttpHeaderFieldValueContentSecurityPolicy', lambda k: b"default-src" + b' ' * (k * 20) + b"'self'", 40),
    'sts_directives': (H + 'HttpHeaderFieldValueSTS', lambda k: b'max-age=1' + b'; includeSubDomains' * k, 30),
    'sts_semicolons': (H + 'HttpHeaderFieldValueSTS', lambda k: b'max-age=1' + b';' * (k * 20), 40),
    'cache_control_items': (H + 'HttpHeaderFieldValueCacheControlResponse', lambda k: b'no-cache' + b', no-store' * k, 40),
    'set_cookie_params': (H + 'HttpHeaderFieldValueSetCookie', lambda k: b'a=b' + b'; Path=/' * k, 40),
    'nel_json': (H + 'HttpHeaderFieldValueNetworkErrorLogging',
                 lambda k: b'{"report_to": "' + b'x' * (k * 40) + b'", "max_age": 1}', 40),
    'pkp_pins': (H + 'HttpHeaderFieldValuePublicKeyPinning',
                 lambda k: b'; '.join(b'pin-sha256="cGluLXNoYTI1Ng=="' for _ in range(k)) + b'; max-age=1', 20),
    'name_value_pairs': ('cryptoparser.common.field.NameValuePairListSemicolonSeparated',
                         lambda k: b'; '.join(b'k%d=v' % i for i in range(k)), 60),
    'spf_terms': (T + 'DnsRecordTxtValueSpf', lambda k: b'v=spf1 ' + b'ip4:192.0.2.0/24 ' * k + b'-all', 30),
    'spf_includes': (T + 'DnsRecordTxtValueSpf', lambda k: b'v=spf1 ' + b'include:_spf.example.com ' * k + b'~all', 20),
    'spf_spaces': (T + 'DnsRecordTxtValueSpf', lambda k: b'v=spf1' + b' ' * (k * 20) + b'-all', 40),
    'spf_unknown_modifiers': (T + 'DnsRecordTxtValueSpf', lambda k: b'v=spf1 ' + b''.join(b'm%d=x ' % i for i in range(k)) + b'-all', 40),
    'dmarc_tags': (T + 'DnsRecordTxtValueDmarc', lambda k: b'v=DMARC1; p=none' + b'; pct=5' * k, 40),
    'dmarc_semicolons': (T + 'DnsRecordTxtValueDmarc', lambda k: b'v=DMARC1; p=none' + b';' * (k * 20), 40),
    'tlsrpt_rua': (T + 'DnsRecordTxtValueTlsRpt',
                   lambda k: b'v=TLSRPTv1; rua=' + b','.join(b'mailto:a%d@example.com' % i for i in range(k)), 30),
    'mtasts_long_id': (T + 'DnsRecordTxtValueMtaSts', lambda k: b'v=STSv1; id=' + b'1' * (k * 30), 40),
    'txt_strings': ('cryptoparser.dnsrec.record.DnsRecordTxt', lambda k: (b'\x0a' + b'abcdefghij') * k, 80),
    'dns_labels': ('cryptoparser.dnsrec.record.DnsNameUncompressed', lambda k: (b'\x03abc') * k + b'\x00', 60),
    'tls_cipher_suites': ('cryptoparser.tls.subprotocol.TlsHandshakeClientHello',
                          lambda k: _client_hello(suites=b''.join(_u16(0xc000 + (i % 200)) for i in range(k))), 120),
    'tls_unknown_cipher_suites': ('cryptoparser.tls.subprotocol.TlsHandshakeClientHello',
                                  lambda k: _client_hello(suites=b''.join(_u16(0x7000 + i) for i in range(k))), 120),
    'tls_unknown_extensions': ('cryptoparser.tls.subprotocol.TlsHandshakeClientHello',
                               lambda k: _client_hello(extensions=b''.join(_u16(0xf000 + (i % 3000)) + b'\x00\x02ab' for i in range(k))), 60),
    # two lists that refer to each other: every offered group also carries a key share, in the same order
    'tls_groups_with_key_shares': ('cryptoparser.tls.subprotocol.TlsHandshakeClientHello',
                                   lambda k: _client_hello(extensions=_groups_and_key_shares(k)), 60),
    'tls_alpn_names': ('cryptoparser.tls.extension.TlsExtensionApplicationLayerProtocolNegotiation',
                       lambda k: (lambda names: b'\x00\x10' + _u16(len(names) + 2) + _u16(len(names)) + names)(b'\x08http/1.1' * k), 60),
    'tls_named_groups': ('cryptoparser.tls.extension.TlsExtensionEllipticCurves',
                         lambda k: (lambda g: b'\x00\x0a' + _u16(len(g) + 2) + _u16(len(g)) + g)(b'\x00\x17\x00\x1d' * k), 100),
    'tls_sig_algs': ('cryptoparser.tls.extension.TlsExtensionSignatureAlgorithms',
                     lambda k: (lambda g: b'\x00\x0d' + _u16(len(g) + 2) + _u16(len(g)) + g)(b'\x04\x01\x08\x04' * k), 100),
    'tls_certificates': ('cryptoparser.tls.subprotocol.TlsHandshakeCertificate',
                         lambda k: (lambda c: b'\x0b' + _u24(len(c) + 3) + _u24(len(c)) + c)((_u24(8) + b'certcert') * k), 80),
    'tls_one_huge_certificate': ('cryptoparser.tls.subprotocol.TlsHandshakeCertificate',
                                 lambda k: (lambda c: b'\x0b' + _u24(len(c) + 3) + _u24(len(c)) + c)(_u24(k * 40) + b'c' * (k * 40)), 60),
    'tls_records_app_data': ('cryptoparser.tls.record.TlsRecord', lambda k: b'\x17\x03\x03' + _u16(k * 40) + b'd' * (k * 40), 60),
    'tls_distinguished_names': ('cryptoparser.tls.subprotocol.TlsHandshakeCertificateRequest',
                                lambda k: (lambda d: (lambda b: b'\x0d' + _u24(len(b)) + b)(b'\x01\x01' + _u16(len(d)) + d))((_u16(4) + b'name') * k), 80),
    'ssl2_cipher_kinds': ('cryptoparser.tls.subprotocol.SslHandshakeClientHello',
                          lambda k: b'\x00\x02' + _u16(3 * k) + _u16(0) + _u16(16) + b'\x01\x00\x80' * k + bytes(16), 100),
    'ssh_kex_known_names': ('cryptoparser.ssh.subprotocol.SshKeyExchangeInit',
                            lambda k: _kexinit([b','.join(b'curve25519-sha256' for _ in range(k))] + [b'none'] * 9), 30),
    'ssh_kex_unknown_names': ('cryptoparser.ssh.subprotocol.SshKeyExchangeInit',
                              lambda k: _kexinit([b','.join(b'alg-%d@example.com' % i for i in range(k))] + [b'none'] * 9), 30),
    'ssh_kex_commas': ('cryptoparser.ssh.subprotocol.SshKeyExchangeInit',
                       lambda k: _kexinit([b',' * (k * 20)] + [b'none'] * 9), 40),
    'ssh_kex_one_long_name': ('cryptoparser.ssh.subprotocol.SshKeyExchangeInit',
                              lambda k: _kexinit([b'n' * (k * 40)] + [b'none'] * 9), 40),
    'ssh_banner_long_comment': ('cryptoparser.ssh.subprotocol.SshProtocolMessage',
                                lambda k: b'SSH-2.0-OpenSSH_8.9 ' + b'c ' * (k * 10) + b'\r\n', 40),
    'ssh_banner_no_newline': ('cryptoparser.ssh.subprotocol.SshProtocolMessage', lambda k: b'SSH-2.0-' + b'x' * (k * 40), 40),
    'ssh_cert_principals': ('cryptoparser.ssh.key.SshCertValidPrincipals',
                            lambda k: _ssh_string(_ssh_string(b'principal') * k), 60),
    'ssh_disconnect_long_text': ('cryptoparser.ssh.subprotocol.SshDisconnectMessage',
                                 lambda k: b'\x01' + _u32(2) + _ssh_string(b'd' * (k * 40)) + _ssh_string(b'en'), 40),
    'mysql_record_payload': ('cryptoparser.tls.mysql.MySQLRecord', lambda k: (k * 40).to_bytes(3, 'little') + b'\x00' + b'p' * (k * 40), 60),
    'openvpn_packet_ids': ('cryptoparser.tls.openvpn.OpenVpnPacketAckV1',
                           lambda k: b'\x28' + bytes(8) + bytes((min(k, 255), )) + b'\x00\x00\x00\x01' * min(k, 255) + bytes(8), 15),
    'language_tags': ('cryptoparser.ssh.subprotocol.SshLanguageVector', lambda k: _ssh_string(b','.join(b'en-US' for _ in range(k))), 60),
    'sct_list': ('cryptoparser.common.x509.SignedCertificateTimestampList',
                 lambda k: (lambda s: _u16(len(s)) + s)((lambda one: (_u16(len(one)) + one))(
                     b'\x00' + bytes(32) + bytes(8) + _u16(0) + b'\x04\x03' + _u16(4) + b'sig!') * k), 20),
}
def _claiming_chunks(ext_type, count, tail=b'\x00\x17\x00\x00'):
    """count extensions of one type whose 2-byte body is an inner vector length claiming all remaining bytes
    (a hostile but well-framed extension list), closed by one well-formed extension."""
    chunks = []
    remaining = len(tail) + 6 * count
    for _ in range(count):
        remaining -= 6
        chunks.append(_u16(ext_type) + _u16(2) + _u16(min(0xffff, remaining)))
    return b''.join(chunks) + tail


# (extension types whose body starts with a two-byte inner length; with a one-byte inner length the claimed value
# wraps around as the input grows and the series is not a scaling series)
for _ext_type, _ext_name in ((0x000a, 'groups'), (0x000d, 'sig_algs'), (0x0010, 'alpn'), (0x0000, 'sni'),
                             (0x0033, 'key_share'), (0x0032, 'sig_algs_cert')):
    SHAPES['tls_ext_inner_length_claims_rest_' + _ext_name] = (
        'cryptoparser.tls.subprotocol.TlsHandshakeClientHello',
        (lambda ext_type: lambda k: _client_hello(extensions=_claiming_chunks(ext_type, k)))(_ext_type), 100)
    SHAPES['tls_ext_list_inner_length_claims_rest_' + _ext_name] = (
        'cryptoparser.tls.extension.TlsExtensionsClient',
        (lambda ext_type: lambda k: (lambda body: _u16(len(body)) + body)(_claiming_chunks(ext_type, k)))(_ext_type), 100)

for _header in (b'Server: nginx', b'Age: 1', b'Pragma: no-cache', b'ETag: "x"', b'Date: Thu, 01 Jan 1970 00:00:00 GMT',
                b'X-Frame-Options: DENY', b'X-Unknown: v', b'Strict-Transport-Security: max-age=1'):
    for _eol_name, _eol in (('lf', b'\n'), ('cr', b'\r'), ('lfcr', b'\n\r')):
        SHAPES['http_%s_lines_bare_%s' % (_header.split(b':')[0].decode().lower(), _eol_name)] = (
            H + 'HttpHeaderFields', (lambda line, eol: lambda k: (line + eol) * k + eol)(_header, _eol), 40)

# lines of other data before the SSH identification string (RFC 4253 4.2 allows a server to send them)
for _line_name, _line in (('hash', b'#\r\n'), ('text', b'Welcome to this host\r\n'), ('lf', b'x\n'), ('empty', b'\r\n')):
    SHAPES['ssh_banner_after_%s_lines' % _line_name] = (
        'cryptoparser.ssh.subprotocol.SshProtocolMessage',
        (lambda line: lambda k: line * (k * 10) + b'SSH-2.0-OpenSSH_8.9\r\n')(_line), 40)

SHAPE_NAMES = sorted(SHAPES)
SCALES = (1, 2, 4, 8, 16)
NEST_MARGINAL_GROWTH = 1.6
DEPTH_GROWTH = 12          # frames: more than this between the smallest and the largest input of a series
REPEAT_GROWTH = (1.3, 150)  # the same call later in the process: steps <= 1.3 * first + 150


AUTO_SEPARATORS = (b'\r\n', b'; ', b';', b', ', b',', b' ')
# separators of short single-value formats (language tags, dotted names): only for seeds of at most 40 octets
SHORT_SEPARATORS = (b'-', b'.')
# items no sample contains but a peer may send between separators: folded continuation lines, empty and blank items
SYNTHETIC_ITEMS = {
    b'\r\n': (b' x', b'\tx', b' ', b' a=b', b' "q"'),
    b'; ': (b'', b' ', b'a=b', b'"q"'),
    b';': (b'', b' ', b'a=b', b'"q"'),
    b', ': (b'', b' ', b'"q"'),
    b',': (b'', b' ', b'"q"'),
    b' ': (b'', b'"q"', b'a=b'),
    b'-': (b'abcd', b'1abc', b'x'),
    b'.': (b'abcd', b'xn--a'),
}
_AUTO_SHAPES = None
_SWEEP_SEEDS = None
SWEEP_MAX_LEN = 1024
SWEEP_VALUES = {1: (0xff, ), 2: (0xffff, ), 3: (0xffffff, ), 4: (0xffffffff, 0x00ffffff)}


def auto_shapes():
    """Scaling shapes derived from the corpus: a separator-delimited item is repeated k times inside an accepted
    text seed (the host).  Items are the host's own parts and the parts of every other text seed of the same
    module (so that e.g. "mx:example.com" is repeated inside a full SPF record although the corpus has it only
    as a single directive).  [(class path, host hex, separator hex, position, item hex), ...] in a fixed order."""
    global _AUTO_SHAPES  # pylint: disable=global-statement
    if _AUTO_SHAPES is None:
        vocab = {}
        hosts = []
        minimal_hosts = []
        for path in corpus.class_paths():
            module = path.rsplit('.', 1)[0]
            for raw in corpus.accepted(path)[:6]:
                if not wirefault.is_text(raw) or len(raw) < 2 or len(raw) > 400:
                    continue
                simple = len(raw) <= 40 and all(0x30 <= b <= 0x39 or 0x41 <= b <= 0x5a or 0x61 <= b <= 0x7a or b in b'.-'
                                                for b in raw)
                for sep in AUTO_SEPARATORS + (SHORT_SEPARATORS if simple else ()):
                    parts = raw.split(sep)
                    for part in parts:
                        if part and len(part) <= 80:
                            vocab.setdefault((module, sep), [])
                            if part not in vocab[(module, sep)]:
                                vocab[(module, sep)].append(part)
                    if len(parts) >= 2:
                        hosts.append((path, module, raw, sep))
            # ... and the shortest accepted text seed of the class as a host for every separator: what follows the
            # repeated items then contains nothing that could terminate them
            texts = [raw for raw in corpus.accepted(path)[:6] if wirefault.is_text(raw) and 2 <= len(raw) <= 400]
            if texts:
                shortest = min(texts, key=len)
                for sep in AUTO_SEPARATORS:
                    minimal_hosts.append((path, module, shortest, sep))
        shapes = []
        seen_hosts = set()
        for path, module, raw, sep in hosts:
            if (path, sep) in seen_hosts:
                continue            # one host per (class, separator): the first (usually richest) seed
            seen_hosts.add((path, sep))
            items = vocab.get((module, sep), [])[:60]
            if sep in SHORT_SEPARATORS:
                items = list(SYNTHETIC_ITEMS.get(sep, ())) + items[:6]
            # the same items left unterminated (closing brace / quote / bracket removed)
            unterminated = []
            for item in items:
                for closer in (b'}', b'"', b"'", b')', b']', b'>'):
                    at = item.rfind(closer)
                    if at > 0:
                        for variant in (item[:at] + item[at + 1:], item.replace(closer, b'')):
                            if variant and variant not in items + unterminated:
                                unterminated.append(variant)
                        break
            for item in items + unterminated[:16] + list(SYNTHETIC_ITEMS.get(sep, ())):
                shapes.append((path, raw.hex(), sep.hex(), 0, item.hex()))
            own_parts = len([part for part in raw.split(sep) if part])
            for item in items[:3]:
                for which in range(min(3, own_parts)):
                    shapes.append((path, raw.hex(), sep.hex(), 0, item.hex(), 'mixed:%d' % which))
                if sep == b'\r\n':
                    # the same lines ended by a bare LF / CR, as a sloppy or hostile peer sends them
                    shapes.append((path, raw.replace(b'\r\n', b'\n').hex(), b'\n'.hex(), 0, item.hex()))
                    shapes.append((path, raw.replace(b'\r\n', b'\r').hex(), b'\r'.hex(), 0, item.hex()))
        for path, module, raw, sep in minimal_hosts:
            if (path, sep) not in seen_hosts or not any(h[0] == path and h[3] == sep and h[2] == raw for h in hosts):
                items = vocab.get((module, sep), [])
                extra = []
                for item in items:
                    for closer in (b'}', b'"', b"'", b')', b']', b'>'):
                        if closer in item and item.replace(closer, b'') and item.replace(closer, b'') not in items + extra:
                            extra.append(item.replace(closer, b''))
                            break
                for item in extra[:5]:
                    shapes.append((path, raw.hex(), sep.hex(), len(raw.split(sep)) - 1, item.hex()))
        _AUTO_SHAPES = shapes
    return _AUTO_SHAPES


def _respell(text, number):
    """Another letter-case spelling of `text`, chosen by the bits of `number` (distinct for distinct numbers as long
    as the text has enough letters)."""
    out = bytearray(text)
    bit = 0
    for pos, byte in enumerate(out):
        if 0x41 <= byte <= 0x5a or 0x61 <= byte <= 0x7a:
            if (number >> bit) & 1:
                out[pos] = byte ^ 0x20
            bit += 1
    return bytes(out)


def _numbered(text, number):
    """`text` with a counter spliced into its name part (before the first = : or at the end): distinct items."""
    for pos, byte in enumerate(text):
        if byte in b'=:' and pos:
            return text[:pos] + str(number).encode() + text[pos:]
    return text + str(number).encode()


def build_auto(raw, sep, idx, count, item=None, mode='same'):
    parts = raw.split(sep)
    item = parts[idx] if item is None else item
    if mode == 'same':
        extra = [item] * count
    else:
        # pairwise different items: numbered copies of the item, followed by as many other letter-case spellings of
        # one of the host's own parts (names are matched case-insensitively, values are not)
        own = [part for part in parts if part] or [item]
        which = own[int(mode.split(':')[1]) % len(own)] if ':' in mode else own[-1]
        extra = [_numbered(item, number) for number in range(count // 2)]
        extra += [_respell(which, number + 1) for number in range(count - count // 2)]
    return sep.join(parts[:idx + 1] + extra + parts[idx + 1:])


_LP_SHAPES = None
LP_ITEMS = ('same', 'max')


def lp_shapes():
    """Lists of length-prefixed items in binary formats: a length-prefixed span of an accepted seed which, duplicated
    right behind itself (enclosing length fields adjusted), is still accepted with more bytes consumed.
    [(class path, seed hex, offset of the prefix, prefix size), ...]"""
    global _LP_SHAPES  # pylint: disable=global-statement
    if _LP_SHAPES is None:
        shapes = []
        for path in corpus.class_paths():
            cls = corpus.resolve(path)
            for raw in corpus.accepted(path)[:3]:
                if wirefault.is_text(raw) or not 2 <= len(raw) <= 600:
                    continue
                try:
                    base_consumed = cls.parse_immutable(raw)[1]
                except Exception:  # pylint: disable=broad-except
                    continue
                found = 0
                for size in (1, 2, 4):
                    for at in range(0, len(raw) - size):
                        length = int.from_bytes(raw[at:at + size], 'big')
                        if not 1 <= length <= len(raw) - at - size:
                            continue
                        data = build_lp(raw, at, size, 1, 'same')
                        try:
                            consumed = cls.parse_immutable(data)[1]
                        except Exception:  # pylint: disable=broad-except
                            continue
                        if consumed >= base_consumed + size + length:
                            shapes.append((path, raw.hex(), at, size))
                            found += 1
                            if found >= 3:
                                break
                    if found >= 3:
                        break
        _LP_SHAPES = shapes
    return _LP_SHAPES


def build_lp(raw, at, size, count, item_kind):
    """`count` more items inserted behind the length-prefixed item at `at`: copies of it, or items of the maximal
    length a 1-octet prefix can announce (255 octets; 1024 for wider prefixes) filled with the item's first octet.
    Every length field in front that covers the item is adjusted."""
    length = int.from_bytes(raw[at:at + size], 'big')
    item = raw[at:at + size + length]
    if item_kind == 'max':
        big = 255 if size == 1 else 1024
        item = big.to_bytes(size, 'big') + (raw[at + size:at + size + 1] or b'a') * big
    extra = item * count
    end = at + size + length
    out = bytearray(raw[:end] + extra + raw[end:])
    for field in (4, 3, 2, 1):
        for pos in range(0, at - field + 1):
            value = int.from_bytes(raw[pos:pos + field], 'big')
            if value and end <= pos + field + value <= len(raw) and value + len(extra) < (1 << (8 * field)) and \
                    (field == 4 or (field > 1 and (raw[pos] == 0 or value > 255)) or (field == 1 and pos + 1 + value == len(raw))):
                out[pos:pos + field] = (value + len(extra)).to_bytes(field, 'big')
    return bytes(out)


_WHOLE_SHAPES = None


def whole_shapes():
    """Small accepted units (committed seeds and derived variants - emptied fields give the smallest records a peer
    can send) to be repeated back to back: [(class path, unit hex), ...]"""
    global _WHOLE_SHAPES  # pylint: disable=global-statement
    if _WHOLE_SHAPES is None:
        shapes = []
        for path in corpus.class_paths():
            units = sorted({raw for raw in corpus.accepted_plus(path) if 1 <= len(raw) <= 48}, key=lambda raw: (len(raw), raw))
            for raw in units[:3]:
                shapes.append((path, raw.hex()))
        _WHOLE_SHAPES = shapes
    return _WHOLE_SHAPES


_NEST_SHAPES = None
NEST_INNER = ('valid', 'badname', 'trunc')


def nest_shapes():
    """Recursion points of the formats: a length-prefixed span of an accepted binary seed whose content is itself
    accepted by the seed's class or by a variant parser of the same module (e.g. the signature key inside an
    OpenSSH certificate is a host key blob, which may be a certificate again).  [(class path, seed hex, offset of
    the 4- or 2-octet length prefix, prefix size), ...]"""
    global _NEST_SHAPES  # pylint: disable=global-statement
    if _NEST_SHAPES is None:
        variants = {}
        for path in corpus.class_paths():
            if path.endswith('Variant'):
                variants.setdefault(path.rsplit('.', 1)[0], []).append(corpus.resolve(path))
        shapes = []
        for path in corpus.class_paths():
            cls = corpus.resolve(path)
            candidates = [cls] + variants.get(path.rsplit('.', 1)[0], [])
            for raw in corpus.accepted(path)[:4]:
                if wirefault.is_text(raw) or not 16 <= len(raw) <= 1500:
                    continue
                found = 0
                for size in (4, 2):
                    for at in range(0, len(raw) - size - 8):
                        length = int.from_bytes(raw[at:at + size], 'big')
                        if not 8 <= length <= len(raw) - at - size or (at == 0 and length == len(raw) - size):
                            continue
                        inner = raw[at + size:at + size + length]
                        for candidate in candidates:
                            try:
                                candidate.parse_exact_size(inner)
                            except Exception:  # pylint: disable=broad-except
                                continue
                            shapes.append((path, raw.hex(), at, size))
                            found += 1
                            break
                        if found >= 2:
                            break
                    if found >= 2:
                        break
        _NEST_SHAPES = shapes
    return _NEST_SHAPES


def build_nested(raw, at, size, depth, inner_kind):
    """The seed nested inside its own length-prefixed span `depth` times; every length field in front of the span
    that covers it is kept consistent.  The innermost span is the original content, the original content with its
    first name made unknown, or a truncated copy."""
    length = int.from_bytes(raw[at:at + size], 'big')
    original = raw[at + size:at + size + length]
    if inner_kind == 'valid':
        blob = original
    elif inner_kind == 'badname':
        blob = bytearray(original)
        for pos in range(min(len(blob) - 1, 12), 3, -1):      # an octet of the leading name
            if 0x21 <= blob[pos] < 0x7f:
                blob[pos] = 0x7e if blob[pos] != 0x7e else 0x21
                break
        blob = bytes(blob)
    else:
        blob = original[:max(1, len(original) // 2)]
    limit = (1 << (8 * size)) - 1
    for _ in range(depth):
        delta = len(blob) - length
        if len(blob) > limit:
            break
        out = bytearray(raw[:at] + len(blob).to_bytes(size, 'big') + blob + raw[at + size + length:])
        if delta:
            for field in (4, 3, 2):
                for pos in range(0, at - field + 1):
                    value = int.from_bytes(raw[pos:pos + field], 'big')
                    if value and at + size + length <= pos + field + value <= len(raw) and \
                            0 <= value + delta < (1 << (8 * field)) and (field == 4 or raw[pos] == 0 or value > 255):
                        out[pos:pos + field] = (value + delta).to_bytes(field, 'big')
        blob = bytes(out)
    return blob


def sweep_seeds():
    global _SWEEP_SEEDS  # pylint: disable=global-statement
    if _SWEEP_SEEDS is None:
        out = []
        for path in corpus.class_paths():
            for raw in corpus.accepted(path):
                if 0 < len(raw) <= SWEEP_MAX_LEN and not wirefault.is_text(raw):
                    out.append((path, raw.hex()))
        _SWEEP_SEEDS = out
    return _SWEEP_SEEDS


def prepare(tier):  # pylint: disable=unused-argument
    corpus.warm_variants()
    workload.pools()
    stepclock.clock().install()
    auto_shapes()
    nest_shapes()
    lp_shapes()
    whole_shapes()
    sweep_seeds()
    return {'phase': 'fuzz'}


# --------------------------------------------------------------------------------------

def generate(rng, index, tier, extra):
    try:
        return _generate(rng, index, tier, extra)
    except workload.SenderRejected:
        # the sender of a stream channel is unusable on this tree (not this property's concern): send a datagram
        path = rng.choice(corpus.class_paths())
        raw = rng.choice(corpus.accepted(path) or corpus.rejected(path))
        return {'kind': 'dgram', 'cls': path, 'hex': raw.hex(), 'faults': wirefault.gen_faults(rng, raw),
                'entry': 'parse_immutable', 'trailing': '', 'junk': '00'}


def _generate(rng, index, tier, extra):
    phase = (extra or {}).get('phase', 'fuzz')
    if phase == 'scale':
        return {'kind': 'scale', 'shape': SHAPE_NAMES[index % len(SHAPE_NAMES)],
                'mult': 1 if tier == 'quick' else (1, 2, 3)[(index // len(SHAPE_NAMES)) % 3]}
    if phase == 'autoscale':
        shapes = auto_shapes()
        pick = index
        shape = shapes[pick % len(shapes)]
        path, raw_hex, sep_hex, idx, item_hex = shape[:5]
        return {'kind': 'autoscale', 'cls': path, 'hex': raw_hex, 'sep': sep_hex, 'at': idx, 'item': item_hex,
                'mode': shape[5] if len(shape) > 5 else 'same', 'engaged_only': tier == 'quick'}
    if phase == 'lp':
        shapes = lp_shapes()
        path, raw_hex, at, size = shapes[(index // len(LP_ITEMS)) % len(shapes)]
        return {'kind': 'lpscale', 'cls': path, 'hex': raw_hex, 'at': at, 'size': size,
                'item': LP_ITEMS[index % len(LP_ITEMS)], 'quick': tier == 'quick'}
    if phase == 'unitsweep':
        import random as _random
        channels = workload.STREAM_CHANNELS
        channel = channels[index % len(channels)]
        rng_unit = _random.Random(7919 * index + 3)
        unit = b''
        for _ in range(40):
            try:
                candidate = channel.make(rng_unit)
            except workload.SenderRejected:
                continue
            if len(candidate) <= 64:
                unit = candidate
                break
        return {'kind': 'unitsweep', 'channel': channel.name, 'hex': unit.hex()}
    if phase == 'whole':
        path, raw_hex = whole_shapes()[index % len(whole_shapes())]
        return {'kind': 'wholescale', 'cls': path, 'hex': raw_hex, 'quick': tier == 'quick'}
    if phase == 'nest':
        shapes = nest_shapes()
        path, raw_hex, at, size = shapes[(index // len(NEST_INNER)) % len(shapes)]
        return {'kind': 'nestscale', 'cls': path, 'hex': raw_hex, 'at': at, 'size': size,
                'inner': NEST_INNER[index % len(NEST_INNER)], 'quick': tier == 'quick'}
    if phase == 'sweep':
        path, raw_hex = sweep_seeds()[index]
        return {'kind': 'countsweep', 'cls': path, 'hex': raw_hex}
    paths = corpus.class_paths()
    if phase == 'alloc':
        path = rng.choice(paths)
        seeds = corpus.accepted(path) or corpus.rejected(path)
        raw = rng.choice(seeds)
        faults = wirefault.gen_faults(rng, raw, kinds=('lenfield', 'lenfield', 'set'))
        return {'kind': 'alloc', 'cls': path, 'hex': raw.hex(), 'faults': faults}
    roll = rng.random()
    if roll < 0.75:
        path = rng.choice(paths)
        seeds = corpus.accepted_plus(path)
        bad = corpus.rejected(path)
        raw = rng.choice(bad) if bad and (not seeds or rng.random() < 0.25) else rng.choice(seeds)
        faults = wirefault.gen_faults(rng, raw)
        if rng.random() < 0.3:
            # hostile repetition: a slice of the input repeated many times
            at = rng.randrange(len(raw)) if raw else 0
            size = rng.choice((1, 2, 4, 8))
            faults.append({'k': 'insert', 'at': at, 'hex': (raw[at:at + size] or b'\x00').hex() * rng.choice((16, 64, 256, 1024))})
        return {'kind': 'dgram', 'cls': path, 'hex': raw.hex(), 'faults': faults,
                'entry': rng.choice(oracles.ENTRY_POINTS)}
    channel = rng.choice(workload.STREAM_CHANNELS)
    discards = []
    records = [channel.make(rng, discards) for _ in range(rng.choice((1, 2, 3)))]
    stream = b''.join(records)
    bounds, pos = [], 0
    for rec in records:
        pos += len(rec)
        bounds.append(pos)
    faults = wirefault.gen_faults(rng, stream, bounds, channel.framer) if rng.random() < 0.8 else []
    total = len(stream)
    cuts = sorted(rng.sample(range(1, total), min(total - 1, rng.choice((0, 1, 3, 8))))) if total > 1 else []
    return {'kind': 'stream', 'channel': channel.name, 'records': [r.hex() for r in records], 'faults': faults,
            'cuts': cuts, 'sender_discards': discards}


def execute(doc):
    res = core.Result()
    kind = doc['kind']
    if kind == 'dgram':
        _exec_dgram(doc, res)
    elif kind == 'stream':
        _exec_stream(doc, res)
    elif kind == 'scale':
        _exec_scale(doc, res)
    elif kind == 'alloc':
        _exec_alloc(doc, res)
    elif kind == 'autoscale':
        _exec_autoscale(doc, res)
    elif kind == 'countsweep':
        _exec_countsweep(doc, res)
    elif kind == 'nestscale':
        _exec_nestscale(doc, res)
    elif kind == 'lpscale':
        _exec_lpscale(doc, res)
    elif kind == 'wholescale':
        _exec_wholescale(doc, res)
    elif kind == 'unitsweep':
        _exec_unitsweep(doc, res)
    else:
        raise core.HarnessError('unknown schedule kind %r' % kind)
    return res


def _judge(res, cls_name, entry, size, steps, depth, outcome):
    """Absolute bound for one measured call."""
    res.steps += steps
    limit = A_STEPS_PER_BYTE * size + B_STEPS
    if outcome == 'cap':
        res.violation((PROPERTY, 'runaway', cls_name), 'call exceeded the hard step cap',
                      '%s.%s on %d bytes was stopped after %d line steps' % (cls_name, entry, size, steps))
    elif steps > limit:
        res.violation((PROPERTY, 'steps-bound', cls_name), 'steps <= %d*len + %d' % (A_STEPS_PER_BYTE, B_STEPS),
                      '%s.%s on %d bytes took %d line steps (limit %d)' % (cls_name, entry, size, steps, limit))
    if depth > D_DEPTH:
        res.violation((PROPERTY, 'depth-bound', cls_name), 'recursion depth <= %d' % D_DEPTH,
                      '%s.%s on %d bytes reached depth %d' % (cls_name, entry, size, depth))
    per_byte = steps / max(1, size)
    res.stats['steps.max_per_byte_bucket_2^%d' % max(0, int(math.log2(per_byte + 1)))] += 1
    if depth > 30:
        res.stats['probe.depth_over_30'] += 1


def _measure(cls, entry, raw):
    clock = stepclock.clock()
    arg = bytearray(raw) if entry == 'parse_mutable' else bytes(raw)
    func = getattr(cls, entry)
    steps, depth, status, value = clock.measure(func, arg)
    if status == 'exc':
        status = wire.classify(value)
    return steps, depth, status


def _exec_dgram(doc, res):
    cls = corpus.resolve(doc['cls']) or core.get_class(doc['cls'])
    raw = wire.apply_faults(bytes.fromhex(doc['hex']), doc['faults'], res)
    entry = doc.get('entry', 'parse_immutable')
    steps, depth, status = _measure(cls, entry, raw)
    _judge(res, cls.__name__, entry, len(raw), steps, depth, status)
    res.note(cls.__name__, entry, status)   # step counts stay out of the log (warm-up dependent)
    res.sim_events += 1
    fired = tuple(sorted(k for k in res.stats if k.startswith('fault.') and res.stats[k]))
    res.sched_sig = ('dgram', doc['cls'].rsplit('.', 1)[1], fired, status, int(math.log2(steps / max(1, len(raw)) + 1)))
    res.nontrivial = bool(fired)
    res.stats['runs.dgram'] += 1
    if len(raw) >= 1024:
        res.stats['probe.input_over_1k'] += 1
    for fault in doc['faults']:
        if fault['k'] == 'lenfield' and fault['val'] >= 2 ** 24 and len(raw) < 64:
            res.stats['probe.declared_length_over_2^24_with_little_data'] += 1


def _exec_stream(doc, res):
    channel = workload.CHANNEL_BY_NAME[doc['channel']]
    cls = core.get_class(channel.cls_path)
    records = [bytes.fromhex(h) for h in doc['records']]
    stream = wire.apply_faults(b''.join(records), doc['faults'], res)
    clock = stepclock.clock()
    layer = wire.Layer(channel.name, cls, 'eager', res, PROPERTY, truth=None, clock=clock)
    outcomes = set()

    def on_step(layer_, status, snapshot, exc, obj, n):  # pylint: disable=unused-argument,too-many-arguments
        outcome = status if status == 'ok' else wire.classify(exc)
        if isinstance(exc, stepclock.StepBudgetExceeded):
            outcome = 'cap'
        outcomes.add(outcome)
        _judge(res, cls.__name__, 'parse_mutable', len(snapshot), clock.steps, clock.max_depth, outcome)

    total = len(stream)
    for a, b in wire.chunks_from_cuts(total, doc['cuts']):
        res.event('transport', 'deliver', b - a)
        layer.feed(stream[a:b], eof=(b == total), on_step=on_step)
        if layer.dead:
            break
    fired = tuple(sorted(k for k in res.stats if k.startswith('fault.') and res.stats[k]))
    res.sched_sig = ('stream', channel.name, fired, tuple(sorted(outcomes)), len(doc['cuts']))
    res.nontrivial = bool(fired)
    res.stats['runs.stream'] += 1


def _exec_scale(doc, res):
    path, build, base = SHAPES[doc['shape']]
    cls = core.get_class(path)
    mult = doc.get('mult', 1)
    series = []
    _measure(cls, 'parse_immutable', build(base))  # warm-up (first-call import/caching effects)
    for scale in SCALES:
        raw = build(base * mult * scale)
        steps, depth, status = _measure(cls, 'parse_immutable', raw)
        series.append((len(raw), steps, depth, status))
        _judge(res, cls.__name__, 'parse_immutable', len(raw), steps, depth, status)
        res.sim_events += 1
    exps = []
    for (len_a, steps_a, _, _), (len_b, steps_b, _, _) in zip(series, series[1:]):
        grow = math.log2(max(1, len_b) / max(1, len_a))
        exps.append(math.log2(max(1, steps_b) / max(1, steps_a)) / grow if grow > 0.2 else 0.0)
    tail = exps[-2:]
    res.note(doc['shape'], [s[3] for s in series])
    # growth must show at the largest doubling and already at the one before: a parser that stops early on the small
    # inputs and works through the large ones (a length field crossing a threshold) jumps once and is flat again
    sustained = len(tail) == 2 and tail[1] > MAX_EXPONENT and tail[0] > 1.05
    if series[-1][1] > 20000 and (sustained or (len(tail) == 1 and tail[0] > MAX_EXPONENT)):
        res.violation((PROPERTY, 'superlinear', doc['shape']),
                      'growth exponent at the largest doubling <= %.2f (with growth already visible at the one before)' % MAX_EXPONENT,
                      'shape %s (%s): (len, steps) = %s exponents = %s' % (
                          doc['shape'], cls.__name__, [(s[0], s[1]) for s in series], ['%.2f' % e for e in exps]))
    if any(s[3] == 'ok' for s in series):
        res.stats['scale.accepted_inputs'] += 1
    else:
        res.stats['scale.rejected_inputs'] += 1
    if series[-1][0] >= 16000:
        res.stats['probe.scaled_input_over_16k'] += 1
    res.stats['runs.scale'] += 1
    res.sched_sig = ('scale', doc['shape'], mult, tuple(s[3] for s in series))
    res.nontrivial = True
    res.stats['scale.max_exponent_x100_bucket_%d' % int(max(tail or [0]) * 10)] += 1


def _series_verdict(res, label, cls, series, sig_tail):
    exps = []
    for (len_a, steps_a, _, _), (len_b, steps_b, _, _) in zip(series, series[1:]):
        grow = math.log2(max(1, len_b) / max(1, len_a))
        exps.append(math.log2(max(1, steps_b) / max(1, steps_a)) / grow if grow > 0.2 else 0.0)
    tail = exps[-2:]
    if len(series) >= 3 and series[-1][2] > series[0][2] + DEPTH_GROWTH and series[-1][2] > 40:
        res.violation((PROPERTY, 'depth-grows') + tuple(sig_tail), 'recursion depth is bounded by a constant',
                      '%s (%s): (len, depth) = %s' % (label, cls.__name__, [(s[0], s[2]) for s in series]))
    sustained = len(tail) == 2 and tail[1] > MAX_EXPONENT and tail[0] > 1.05    # see _exec_scale
    if series[-1][1] > 20000 and (sustained or (len(tail) == 1 and tail[0] > MAX_EXPONENT)):
        res.violation((PROPERTY, 'superlinear') + tuple(sig_tail),
                      'growth exponent at the two largest doublings <= %.2f' % MAX_EXPONENT,
                      '%s (%s): (len, steps) = %s exponents = %s' % (
                          label, cls.__name__, [(s[0], s[1]) for s in series], ['%.2f' % e for e in exps]))
    return tail


def _exec_autoscale(doc, res):
    cls = corpus.resolve(doc['cls']) or core.get_class(doc['cls'])
    raw, sep, idx = bytes.fromhex(doc['hex']), bytes.fromhex(doc['sep']), doc['at']
    item = bytes.fromhex(doc['item'])
    parts = raw.split(sep)
    item_len = len(item) + len(sep)
    quick = bool(doc.get('engaged_only'))
    base = max(4, (400 if quick else 700) // item_len)
    scales = SCALES[:4] if quick else SCALES
    if doc.get('mode', 'same') != 'same':
        # a weak quadratic term (one cheap scan per distinct item) only outgrows the linear work at a few hundred items
        base, scales = max(4, 700 // item_len), SCALES
    mode = doc.get('mode', 'same')
    probe = build_auto(raw, sep, idx, base, item, mode)
    _measure(cls, 'parse_immutable', probe)
    if doc.get('engaged_only'):
        # quick tier: only shapes in which the parser really works through the repeated items (accepted and at
        # least half consumed, or rejected after noticeable work); the thorough tier measures every shape
        clock = stepclock.clock()
        steps, _, status, value = clock.measure(cls.parse_immutable, probe)
        consumed = value[1] if status == 'ok' and isinstance(value, tuple) else 0
        if not (consumed * 2 >= len(probe) or (status != 'ok' and steps >= 3 * len(probe))):
            res.stats['autoscale.skipped_in_quick(parser does not work through the items)'] += 1
            res.sched_sig = ('autoscale-skip', cls.__name__, doc['sep'], doc['item'][:24])
            res.nontrivial = False
            return
    series = []
    for scale in scales:
        data = build_auto(raw, sep, idx, base * scale, item, mode)
        steps, depth, status = _measure(cls, 'parse_immutable', data)
        series.append((len(data), steps, depth, status))
        _judge(res, cls.__name__, 'parse_immutable', len(data), steps, depth, status)
        res.sim_events += 1
    tail = _series_verdict(res, 'item %r repeated inside %r' % (item[:30], raw[:40]), cls, series,
                           (cls.__name__, 'repeat-item' if mode == 'same' else 'distinct-items', item[:16].decode('ascii', 'replace')))
    res.note('autoscale', cls.__name__, [s[3] for s in series])
    res.stats['runs.autoscale'] += 1
    res.stats['scale.accepted_inputs' if any(s[3] == 'ok' for s in series) else 'scale.rejected_inputs'] += 1
    res.sched_sig = ('autoscale', cls.__name__, doc['sep'], doc['item'][:24], mode, tuple(s[3] for s in series))
    res.nontrivial = True
    res.stats['scale.max_exponent_x100_bucket_%d' % int(max(tail or [0]) * 10)] += 1


def _exec_unitsweep(doc, res):
    """A small unit with one of its first 12 octets overwritten (all 256 values: types, message codes, versions),
    repeated 300 times back to back: whatever kind of unit that makes it, reading the first one stays cheap and flat."""
    channel = workload.CHANNEL_BY_NAME[doc['channel']]
    cls = core.get_class(channel.cls_path)
    unit = bytes.fromhex(doc['hex'])
    only = doc.get('only')
    plan = only if only is not None else [[offset, value] for offset in range(min(12, len(unit))) for value in range(256)
                                          if unit[offset] != value]
    cases = 0
    for offset, value in plan:
        mutated = unit[:offset] + bytes((value, )) + unit[offset + 1:]
        data = mutated * 300 + mutated[:1]
        steps, stack, status = _measure(cls, 'parse_immutable', data)
        before = len(res.violations)
        _judge(res, cls.__name__, 'parse_immutable', len(data), steps, stack, status)
        for violation in res.violations[before:]:
            violation['case'] = [offset, value]
        cases += 1
        if len(res.violations) > 2:
            break
    res.sim_events += cases
    res.stats['fault.set'] += cases
    res.stats['unitsweep.cases'] += cases
    res.stats['runs.unitsweep'] += 1
    res.sched_sig = ('unitsweep', channel.name, len(unit))
    res.nontrivial = bool(unit)


def _exec_wholescale(doc, res):
    """One small accepted unit repeated back to back, plus the first octet of one more: the buffer a reader holds after
    a burst of minimal records.  Parsing the first unit must not work through (or recurse over) the rest."""
    cls = corpus.resolve(doc['cls']) or core.get_class(doc['cls'])
    unit = bytes.fromhex(doc['hex'])
    series = []
    for count in ((16, 64, 256, 1024) if doc.get('quick') else (16, 64, 256, 1024, 4096, 16384)):
        data = unit * count + unit[:1]
        if len(data) > 400000:
            break
        steps, stack, status = _measure(cls, 'parse_immutable', data)
        series.append((len(data), steps, stack, status))
        _judge(res, cls.__name__, 'parse_immutable', len(data), steps, stack, status)
        res.sim_events += 1
    tail = _series_verdict(res, 'unit %s repeated back to back' % unit[:24].hex(), cls, series,
                           (cls.__name__, 'repeat-unit', unit[:8].hex()))
    res.note('wholescale', cls.__name__, [s[3] for s in series])
    res.stats['runs.wholescale'] += 1
    res.sched_sig = ('wholescale', cls.__name__, doc['hex'][:16], tuple(s[3] for s in series))
    res.nontrivial = True
    res.stats['scale.max_exponent_x100_bucket_%d' % int(max(tail or [0]) * 10)] += 1


def _exec_lpscale(doc, res):
    cls = corpus.resolve(doc['cls']) or core.get_class(doc['cls'])
    raw = bytes.fromhex(doc['hex'])
    series = []
    for count in ((16, 32, 64, 128, 256) if doc.get('quick') else (16, 32, 64, 128, 256, 512, 1024)):
        data = build_lp(raw, doc['at'], doc['size'], count, doc['item'])
        if len(data) > 400000 or (series and len(data) <= series[-1][0]):
            break
        steps, stack, status = _measure(cls, 'parse_immutable', data)
        series.append((len(data), steps, stack, status))
        _judge(res, cls.__name__, 'parse_immutable', len(data), steps, stack, status)
        res.sim_events += 1
    tail = _series_verdict(res, 'length-prefixed item at offset %d repeated (%s items)' % (doc['at'], doc['item']),
                           cls, series, (cls.__name__, 'repeat-lp-item', doc['item']))
    res.note('lpscale', cls.__name__, [s[3] for s in series])
    res.stats['runs.lpscale'] += 1
    res.stats['scale.accepted_inputs' if any(s[3] == 'ok' for s in series) else 'scale.rejected_inputs'] += 1
    res.sched_sig = ('lpscale', cls.__name__, doc['at'], doc['item'], tuple(s[3] for s in series))
    res.nontrivial = True
    res.stats['scale.max_exponent_x100_bucket_%d' % int(max(tail or [0]) * 10)] += 1


def _exec_nestscale(doc, res):
    cls = corpus.resolve(doc['cls']) or core.get_class(doc['cls'])
    raw = bytes.fromhex(doc['hex'])
    series = []
    for depth in ((2, 4, 8, 16) if doc.get('quick') else (2, 4, 8, 16, 32, 64)):
        data = build_nested(raw, doc['at'], doc['size'], depth, doc['inner'])
        if series and len(data) <= series[-1][0]:
            break                   # the length prefix cannot hold a deeper nesting
        steps, stack, status = _measure(cls, 'parse_immutable', data)
        series.append((len(data), steps, stack, status))
        _judge(res, cls.__name__, 'parse_immutable', len(data), steps, stack, status)
        res.sim_events += 1
    # every level costs a fixed amount however small it is, so the verdict is on the marginal cost per added byte
    # (constant for linear work, doubling with every doubling of the depth for quadratic work)
    marginal = [(b[1] - a[1]) / float(max(1, b[0] - a[0])) for a, b in zip(series, series[1:])]
    tail = [0.0]
    if len(marginal) >= 2 and marginal[0] > 0:
        tail = [math.log2(max(marginal[-1], 1e-9) / marginal[0]) / max(1, len(marginal) - 1) + 1.0]
        if series[-1][1] > 20000 and marginal[-1] > NEST_MARGINAL_GROWTH * marginal[0]:
            res.violation((PROPERTY, 'superlinear', cls.__name__, 'nested', doc['inner']),
                          'marginal cost per added byte grows by less than x%.1f from the first to the last doubling of '
                          'the nesting depth' % NEST_MARGINAL_GROWTH,
                          'seed nested inside its own span at offset %d (%s innermost) (%s): (len, steps) = %s marginal '
                          'steps per byte = %s' % (doc['at'], doc['inner'], cls.__name__, [(s[0], s[1]) for s in series],
                                                   ['%.1f' % m for m in marginal]))
    res.note('nestscale', cls.__name__, [s[3] for s in series])
    res.stats['runs.nestscale'] += 1
    res.stats['probe.nesting_depth_8_or_more'] += len(series) >= 4
    res.sched_sig = ('nestscale', cls.__name__, doc['at'], doc['inner'], tuple(s[3] for s in series))
    res.nontrivial = True
    res.stats['scale.max_exponent_x100_bucket_%d' % int(max(tail or [0]) * 10)] += 1


def _exec_countsweep(doc, res):
    """Complete single-fault enumeration: every offset of the seed overwritten with a maximal 1/2/3/4-byte
    integer (a hostile length or count field wherever the format keeps one)."""
    cls = corpus.resolve(doc['cls']) or core.get_class(doc['cls'])
    raw = bytes.fromhex(doc['hex'])
    only = doc.get('only')
    cases = 0
    measured = []
    plan = only if only is not None else [
        (off, size, value) for size, values in sorted(SWEEP_VALUES.items()) for value in values
        for off in range(0, len(raw) - size + 1)]
    for off, size, value in plan:
        data = raw[:off] + value.to_bytes(size, 'big') + raw[off + size:]
        if data == raw:
            continue
        steps, depth, status = _measure(cls, 'parse_immutable', data)
        if cases % 7 == 0 and len(measured) < 400:
            measured.append((data, steps))
        before = len(res.violations)
        _judge(res, cls.__name__, 'parse_immutable', len(data), steps, depth, status)
        for violation in res.violations[before:]:
            violation['case'] = [off, size, value]
        cases += 1
        if len(res.violations) > 3:
            break
    # the same inputs again, after all the other calls: per-call work does not grow with the history of the process
    if only is None and measured:
        again = measured            # every seventh case of the sweep (at most 400)
        for data, first_steps in again:
            steps, depth, status = _measure(cls, 'parse_immutable', data)
            res.stats['probe.call_repeated_after_the_sweep'] += 1
            if steps > first_steps * REPEAT_GROWTH[0] + REPEAT_GROWTH[1]:
                res.violation((PROPERTY, 'work-grows-with-earlier-calls', cls.__name__),
                              'the work of a call is bounded by its own input',
                              '%s.parse_immutable on the same %d bytes: %d line steps at first, %d after %d other calls '
                              'in the same process' % (cls.__name__, len(data), first_steps, steps, cases))
                break
    res.stats['fault.lenfield'] += cases
    res.stats['countsweep.cases'] += cases
    res.stats['countsweep.seeds'] += 1
    res.sim_events += cases
    res.sched_sig = ('countsweep', doc['cls'], doc['hex'][:16], len(raw))
    res.nontrivial = True


def _exec_alloc(doc, res):
    cls = corpus.resolve(doc['cls']) or core.get_class(doc['cls'])
    raw = wire.apply_faults(bytes.fromhex(doc['hex']), doc['faults'], res)
    started = tracemalloc.is_tracing()
    if not started:
        tracemalloc.start()
    try:
        tracemalloc.reset_peak()
        base, _ = tracemalloc.get_traced_memory()
        try:
            cls.parse_immutable(raw)
            status = 'ok'
        except (core.RunTimeout, KeyboardInterrupt, SystemExit):
            raise
        except BaseException as exc:  # pylint: disable=broad-except
            status = wire.classify(exc)
        _, peak = tracemalloc.get_traced_memory()
    finally:
        if not started:
            tracemalloc.stop()
    used = max(0, peak - base)
    limit = C_ALLOC_PER_BYTE * len(raw) + E_ALLOC
    if used > limit:
        res.violation((PROPERTY, 'alloc-bound', cls.__name__), 'peak allocation <= %d*len + %d' % (C_ALLOC_PER_BYTE, E_ALLOC),
                      '%s.parse_immutable on %d bytes allocated %d bytes at peak' % (cls.__name__, len(raw), used))
    res.note(cls.__name__, status)
    res.sim_events += 1
    fired = tuple(sorted(k for k in res.stats if k.startswith('fault.') and res.stats[k]))
    res.sched_sig = ('alloc', doc['cls'].rsplit('.', 1)[1], fired, status)
    res.nontrivial = bool(fired)
    res.stats['runs.alloc'] += 1
    res.stats['alloc.peak_bucket_2^%d' % max(0, used.bit_length())] += 1


def shrink(doc, sig, budget):
    me = __import__('simverif.props.c19', fromlist=['x'])
    doc = dict(doc)

    def test_with(**changes):
        cand = dict(doc)
        cand.update(changes)
        return core.has_sig(me, cand, sig)

    if doc['kind'] in ('countsweep', 'unitsweep'):
        result = core.guarded_execute(me, doc)
        for violation in result.violations:
            if violation['sig'] == sig and 'case' in violation:
                cand = dict(doc, only=[violation['case']])
                if core.has_sig(me, cand, sig):
                    return cand
        return doc
    if doc['kind'] in ('dgram', 'alloc'):
        doc['faults'] = core.ddmin_list(doc['faults'], lambda c: test_with(faults=c), budget)
    elif doc['kind'] == 'stream':
        doc['faults'] = core.ddmin_list(doc['faults'], lambda c: test_with(faults=c), budget)
        doc['records'] = core.ddmin_list(doc['records'], lambda c: bool(c) and test_with(records=c), budget)
        doc['cuts'] = core.ddmin_list(doc['cuts'], lambda c: test_with(cuts=c), budget)
    return doc


BUDGET = {'quick': (40000, 60.0, 1, 1000), 'thorough': (1500000, 900.0, 3, 40000)}


def check(tier, seed):
    began = time.time()
    me = __import__('simverif.props.c19', fromlist=['x'])
    extra = prepare(tier)
    histories = core.history_batch(me, seed, tier, extra, scale=0.4, lengths=(4, 8, 16))      # first: this process has executed no run yet
    core.determinism_selftest(me, seed, tier, extra, count=40)
    n_runs, wall, scale_rounds, n_alloc = BUDGET[tier]
    scale = core.run_batch(me, seed, tier, len(SHAPE_NAMES) * scale_rounds, 600.0, {'phase': 'scale'}, chunk=1)
    n_auto = len(auto_shapes())
    auto = core.run_batch(me, seed, tier, n_auto, 1500.0, {'phase': 'autoscale'}, chunk=2)
    sweep = core.run_batch(me, seed, tier, len(sweep_seeds()), 900.0, {'phase': 'sweep'}, chunk=4)
    nest = core.run_batch(me, seed, tier, len(nest_shapes()) * len(NEST_INNER), 600.0, {'phase': 'nest'}, chunk=1)
    lps = core.run_batch(me, seed, tier, len(lp_shapes()) * len(LP_ITEMS), 600.0, {'phase': 'lp'}, chunk=2)
    whole = core.run_batch(me, seed, tier, len(whole_shapes()), 600.0, {'phase': 'whole'}, chunk=4)
    units = core.run_batch(me, seed, tier, len(workload.STREAM_CHANNELS) * (2 if tier == 'quick' else 8), 600.0,
                           {'phase': 'unitsweep'}, chunk=1)
    fuzz = core.run_batch(me, seed, tier, n_runs, wall, extra)
    alloc = core.run_batch(me, seed, tier, n_alloc, 120.0, {'phase': 'alloc'})
    batch = core.merge_batches([scale, auto, sweep, nest, lps, whole, units, fuzz, alloc, histories])
    coverage = core.coverage_from_batch(
        batch, RULE, fault_kinds=wire.FAULT_KINDS,
        probes=('declared_length_over_2^24_with_little_data', 'scaled_input_over_16k', 'input_over_1k', 'depth_over_30'),
        components={
            'real': ['every parse entry point of every corpus class and of the scalable shapes\' classes',
                     'dependencies run as real code (their steps are not counted)'],
            'simulated': ['virtual clock: sys.monitoring LINE / PY_START / PY_RETURN / PY_UNWIND events inside repo code',
                          'transport faults, reader loop'],
            'stubbed': [],
        },
        extra={'scaling_shapes': len(SHAPE_NAMES), 'scaling_runs': scale.runs, 'fuzz_runs': fuzz.runs,
               'corpus_derived_scaling_shapes': {'total': len(auto_shapes()), 'run': auto.runs},
               'enumerated_fault_set': {
                   'description': 'every offset of every accepted binary corpus seed <= %d bytes overwritten with the maximal '
                                  '1/2/3/4-byte integer (and 0x00ffffff): a hostile length or count field' % SWEEP_MAX_LEN,
                   'seeds_swept': sweep.runs, 'seeds_total': len(sweep_seeds()),
                   'faulted_inputs': sweep.stats.get('countsweep.cases', 0),
                   'complete': sweep.runs == len(sweep_seeds()) and not sweep.truncated},
               'alloc_runs': alloc.runs,
               'bounds': {'steps_per_byte': A_STEPS_PER_BYTE, 'steps_offset': B_STEPS, 'depth': D_DEPTH,
                          'max_growth_exponent': MAX_EXPONENT, 'alloc_per_byte': C_ALLOC_PER_BYTE, 'alloc_offset': E_ALLOC}})
    assumptions = [
        'interpreter-level steps = LINE events in files under the repo; work inside C functions and dependencies is not counted',
        'the universal constants are deliberately generous (>= 6x depth, >= 20x slope/offset headroom on the pinned tree)',
        'sampling: a clean batch is evidence, not proof',
    ]
    return core.report_and_exit(me, batch, seed, tier, coverage, assumptions, LEVEL, began)
