# -*- coding: utf-8 -*-
"""C03 - reported consumed length is exact and framing units are self-delimiting.

Configurations: (a) fault-free streams with heavy coalescing, (b) faulty streams (corruption,
length-field overwrite, truncation, garbage) with a reader that re-synchronises on the reference
framer, (c) datagram channels for every corpus class, fault-free and faulty, with trailing junk."""

import time

from simverif.canon import canon
from simverif import core, corpus, oracles, wire, wirefault, workload
from simverif import framer as framer_mod

PROPERTY = 'C03'
LEVEL = 'exploration'

FRAMING_CLASSES = {channel.cls_path: channel.framer for channel in workload.CHANNELS}
# framing units that are reached through a variant or directly by class
FRAMING_CLASSES.update({
    'cryptoparser.tls.subprotocol.' + name: 'tls_handshake' for name in (
        'TlsHandshakeClientHello', 'TlsHandshakeServerHello', 'TlsHandshakeCertificate',
        'TlsHandshakeCertificateRequest', 'TlsHandshakeCertificateStatus', 'TlsHandshakeHelloRetryRequest',
        'TlsHandshakeServerHelloDone', 'TlsHandshakeServerKeyExchange')
})

RULE = (
    'one evaluation = one simulated connection or one datagram: (a) 2-6 library-composed records coalesced into few '
    'deliveries, (b) the same with 1-3 transit faults and a reader that re-synchronises on the reference framer, '
    '(c) one corpus input of any parsable class (accepted or rejected seed) with 0-3 faults and optional trailing '
    'junk. At every reader step all three entry points are called on the same buffer and compared. Signature = '
    '(kind, channel or class, fault kinds, outcome classes seen, trailing junk yes/no); non-trivial = at least one '
    'fault fired, or trailing bytes / a following record were present when a parse succeeded.'
)


def prepare(tier):  # pylint: disable=unused-argument
    corpus.warm_variants()
    workload.pools()
    paths = corpus.class_paths()
    seed_sweep_list()
    for path in paths:
        corpus.resolve(path)
    return None


def _bounds(records):
    out, pos = [], 0
    for rec in records:
        pos += len(rec)
        out.append(pos)
    return out


def generate(rng, index, tier, extra):
    try:
        return _generate(rng, index, tier, extra)
    except workload.SenderRejected:
        # the sender of a stream channel is unusable on this tree (not this property's concern): send a datagram
        path = rng.choice(corpus.class_paths())
        raw = rng.choice(corpus.accepted(path) or corpus.rejected(path))
        return {'kind': 'dgram', 'cls': path, 'hex': raw.hex(), 'faults': wirefault.gen_faults(rng, raw),
                'entry': 'parse_immutable', 'trailing': '', 'junk': '00'}


PAIR_SEEDS = 3


def _generate_pairsweep(index):
    import random as _random
    channels = workload.STREAM_CHANNELS
    channel = channels[index % len(channels)]
    rng = _random.Random(1000003 * index + 17)
    first = second = None
    for _ in range(40):
        try:
            unit = channel.make(rng)
        except workload.SenderRejected:
            continue
        if first is None and len(unit) <= 80:
            first = unit
        elif first is not None and len(unit) <= 400:
            second = unit
            break
    if first is None or second is None:
        return {'kind': 'pairsweep', 'channel': channel.name, 'first': '', 'second': ''}
    return {'kind': 'pairsweep', 'channel': channel.name, 'first': first.hex(), 'second': second.hex()}


_SEED_SWEEP = None


def seed_sweep_list():
    global _SEED_SWEEP  # pylint: disable=global-statement
    if _SEED_SWEEP is None:
        out = []
        for path in corpus.class_paths():
            for raw in corpus.accepted(path)[:4]:
                if 2 <= len(raw) <= 200 and not wirefault.is_text(raw):
                    out.append((path, raw.hex()))
        _SEED_SWEEP = out
    return _SEED_SWEEP


GIANT_UNITS = ('mysql', 'handshake-ske', 'handshake-variant', 'handshake-status')


def _generate(rng, index, tier, extra):  # pylint: disable=unused-argument
    if extra and extra.get('phase') == 'pairsweep':
        return _generate_pairsweep(index)
    if extra and extra.get('phase') == 'seedsweep':
        path, hexdata = seed_sweep_list()[index]
        return {'kind': 'seedsweep', 'cls': path, 'hex': hexdata}
    roll = rng.random()
    junk = bytes(rng.getrandbits(8) for _ in range(rng.choice((1, 2, 5, 16)))).hex()
    if rng.random() < (0.0005 if tier == 'quick' else 0.0002):
        # a unit whose 24-bit length field is at (or within 3 of) its maximum, with all of the data present, followed
        # by the start of the next unit: the largest frames the formats can express
        return {'kind': 'giant', 'unit': rng.choice(GIANT_UNITS), 'short': rng.choice((0, 0, 1, 2, 3)),
                'seed': rng.getrandbits(32), 'junk': junk, 'mutable_first': rng.random() < 0.5}
    if roll < 0.02:
        # BER spellings a peer may use that the library never composes: long-form and indefinite lengths.
        # LDAP forbids the indefinite form; accepting it is fine, reporting a wrong length for it is not.
        raw = workload.make_ldap_ber(indefinite=True)(rng)
        path = 'cryptoparser.tls.ldap.LDAPExtendedResponseStartTLS' if raw[1:].find(b'\x78') >= 0 and b'\x78' in raw[:12] \
            else 'cryptoparser.tls.ldap.LDAPExtendedRequestStartTLS'
        return {'kind': 'dgram', 'cls': path, 'hex': raw.hex(), 'faults': [],
                'trailing': junk if rng.random() < 0.5 else '', 'junk': junk}
    if roll < 0.55:
        paths = corpus.class_paths()
        path = rng.choice(paths)
        seeds = corpus.accepted_plus(path)
        bad = corpus.rejected(path)
        if bad and (not seeds or rng.random() < 0.2):
            raw = rng.choice(bad)
        else:
            raw = rng.choice(seeds)
        faults = []
        if rng.random() < 0.6:
            faults = wirefault.gen_faults(rng, raw, framer_name=FRAMING_CLASSES.get(path))
        trailing = ''
        if rng.random() < 0.5:
            trailing = junk if rng.random() < 0.6 else rng.choice(seeds or bad).hex()
        doc = {'kind': 'dgram', 'cls': path, 'hex': raw.hex(), 'faults': faults, 'trailing': trailing, 'junk': junk}
        if rng.random() < 0.15 and seeds:
            # the caller's receive buffer (one bytearray object) held another unit before: recv_into() style reuse
            doc['previous'] = rng.choice(seeds).hex()
        if rng.random() < 0.06:
            # a receive buffer that already holds a lot of what follows (tens of KiB after the first unit)
            doc['pad'] = [rng.choice((5000, 17000, 18432, 18433, 20000, 40000, 66000, 140000)), rng.getrandbits(32)]
        return doc
    channel = rng.choice(workload.STREAM_CHANNELS)
    discards = []
    records = [channel.make(rng, discards) for _ in range(rng.choice((2, 2, 3, 4, 6)))]
    stream_len = sum(len(r) for r in records)
    faults = []
    if roll >= 0.78:
        faults = wirefault.gen_faults(rng, b''.join(records), _bounds(records), channel.framer)
    cuts = sorted(rng.sample(range(1, stream_len), min(stream_len - 1, rng.choice((0, 0, 1, 2, 3))))) if stream_len > 1 else []
    if channel.name == 'ssh_banner':
        # a banner prefix is answered with invalid-value, not not-enough-data: deliver whole lines
        cuts = sorted(rng.sample(_bounds(records)[:-1], rng.randrange(0, len(records))))
    return {'kind': 'stream', 'channel': channel.name, 'records': [r.hex() for r in records], 'faults': faults,
            'cuts': cuts, 'resync': rng.random() < 0.7, 'junk': junk, 'sender_discards': discards}


def execute(doc):
    res = core.Result()
    if doc['kind'] == 'dgram':
        _exec_dgram(doc, res)
    elif doc['kind'] == 'stream':
        _exec_stream(doc, res)
    elif doc['kind'] == 'giant':
        _exec_giant(doc, res)
    elif doc['kind'] == 'pairsweep':
        _exec_pairsweep(doc, res)
    elif doc['kind'] == 'seedsweep':
        _exec_seedsweep(doc, res)
    else:
        raise core.HarnessError('unknown schedule kind %r' % doc['kind'])
    return res


def _exec_seedsweep(doc, res):
    """Complete single-octet fault enumeration on every small binary seed: each octet incremented by 1 and 2,
    decremented by 1, set to 00 and ff (length octets that then announce slightly more or less than is there), the
    result judged as it stands, one and two octets shorter, and with 48 more octets behind it."""
    cls = corpus.resolve(doc['cls']) or core.get_class(doc['cls'])
    raw = bytes.fromhex(doc['hex'])
    framer_name = FRAMING_CLASSES.get(doc['cls'])
    only = doc.get('only')
    plan = only if only is not None else [
        [offset, value, tail] for offset in range(len(raw))
        for value in sorted({(raw[offset] + 1) & 0xff, (raw[offset] + 2) & 0xff, (raw[offset] - 1) & 0xff, 0x00, 0xff} - {raw[offset]})
        for tail in (0, -1, -2, 48)]
    junk = bytes(range(0x30, 0x60))
    cases = 0
    for offset, value, tail in plan:
        data = raw[:offset] + bytes((value, )) + raw[offset + 1:]
        if tail < 0:
            if offset >= len(data) + tail:
                continue
            data = data[:tail]
        elif tail:
            data += junk[:tail]
        before = len(res.violations)
        oracles.probe_c03(cls, data, res, framer_name, framing=framer_name is not None, junk=junk[:7])
        for violation in res.violations[before:]:
            violation['case'] = [offset, value, tail]
        cases += 1
        if len(res.violations) > 3:
            break
    res.sim_events += cases
    res.stats['fault.set'] += cases
    res.stats['seedsweep.cases'] += cases
    res.stats['runs.seedsweep'] += 1
    res.sched_sig = ('seedsweep', doc['cls'].rsplit('.', 1)[1], doc['hex'][:16], len(raw))
    res.nontrivial = True


def _exec_pairsweep(doc, res):
    """Complete single-octet fault enumeration on the first of two coalesced units: every offset of the first unit
    overwritten (all 256 values in the first 12 octets - headers, message codes -, seven values further on), the second
    unit following it; for the first 8 octets also with 70 KiB more behind.  Whatever the parser then accepts must
    consume what the reference framer reads from the header and must not depend on what follows."""
    channel = workload.CHANNEL_BY_NAME[doc['channel']]
    cls = core.get_class(channel.cls_path)
    first, second = bytes.fromhex(doc['first']), bytes.fromhex(doc['second'])
    if not first:
        res.sched_sig = ('pairsweep', channel.name, 'no-units')
        return
    only = doc.get('only')
    plan = only if only is not None else [
        [offset, value, big] for offset in range(len(first))
        for value in (range(256) if offset < 12 else (0x00, 0x01, 0x02, 0x04, 0x7f, 0x80, 0xff))
        for big in ((False, True) if offset < 8 else (False, )) if first[offset] != value]
    padding = None
    cases = 0
    for offset, value, big in plan:
        data = first[:offset] + bytes((value, )) + first[offset + 1:] + second
        if big:
            if padding is None:
                import random as _random
                padding = _random.Random(7).randbytes(70000)
            data += padding
        before = len(res.violations)
        oracles.probe_c03(cls, data, res, channel.framer, framing=True, junk=second[:7] or b'\x00')
        for violation in res.violations[before:]:
            violation['case'] = [offset, value, big]
        cases += 1
        if len(res.violations) > 3:
            break
    res.sim_events += cases
    res.stats['fault.set'] += cases
    res.stats['pairsweep.cases'] += cases
    res.stats['runs.pairsweep'] += 1
    res.sched_sig = ('pairsweep', channel.name, len(first), len(second))
    res.nontrivial = True


def _exec_giant(doc, res):
    import random as _random
    rng = _random.Random(doc['seed'])
    declared = 2 ** 24 - 1 - doc['short']
    if doc['unit'] == 'mysql':
        from cryptoparser.tls.mysql import MySQLRecord
        cls, framer_name = MySQLRecord, 'mysql'
        unit = bytes(MySQLRecord(rng.randrange(256), rng.randbytes(declared)).compose())
    else:
        from cryptoparser.tls import subprotocol
        from cryptoparser.tls.extension import TlsCertificateStatusType
        framer_name = 'tls_handshake'
        if doc['unit'] == 'handshake-status':
            message = subprotocol.TlsHandshakeCertificateStatus(TlsCertificateStatusType.OCSP, bytearray(rng.randbytes(declared - 4)))
            cls = subprotocol.TlsHandshakeCertificateStatus
        else:
            message = subprotocol.TlsHandshakeServerKeyExchange(rng.randbytes(declared))
            cls = subprotocol.TlsHandshakeServerKeyExchange if doc['unit'] == 'handshake-ske' \
                else subprotocol.TlsHandshakeMessageVariant
        unit = bytes(message.compose())
    raw = unit + bytes.fromhex(doc['junk'])
    n = oracles.probe_c03(cls, raw, res, framer_name if framer_name in framer_mod.FRAMERS else None, framing=True,
                          junk=bytes.fromhex(doc['junk']))
    if n is None and not res.violations:
        res.violation((PROPERTY, 'largest-unit-rejected', cls.__name__), 'a complete unit is accepted whatever its size',
                      'a composed %s of %d bytes followed by %d more bytes was rejected' % (cls.__name__, len(unit), len(raw) - len(unit)))
    elif n is not None and n != len(unit) and not res.violations:
        res.violation((PROPERTY, 'consumed-differs-from-header', cls.__name__), 'n equals the length the frame header declares',
                      'unit of %d bytes, consumed %d' % (len(unit), n))
    res.sim_events += 1
    res.stats['runs.giant'] += 1
    res.stats['probe.unit_with_24_bit_length_at_its_maximum'] += 1
    res.sched_sig = ('giant', doc['unit'], doc['short'], n is not None)
    res.nontrivial = True


def _exec_dgram(doc, res):
    cls = corpus.resolve(doc['cls']) or core.get_class(doc['cls'])
    raw = wire.apply_faults(bytes.fromhex(doc['hex']), doc['faults'], res)
    raw += bytes.fromhex(doc.get('trailing', ''))
    if doc.get('pad'):
        import random as _random
        raw += _random.Random(doc['pad'][1]).randbytes(doc['pad'][0])
        res.stats['probe.buffer_over_18k_after_first_unit'] += doc['pad'][0] > 18432
    framer_name = FRAMING_CLASSES.get(doc['cls'])
    if doc.get('previous'):
        _reused_buffer(cls, bytes.fromhex(doc['previous']), raw, res)
    n = oracles.probe_c03(cls, raw, res, framer_name, framing=framer_name is not None, junk=bytes.fromhex(doc['junk']))
    res.sim_events += 1
    outcome = 'accepted' if n is not None else 'rejected'
    fired = tuple(sorted(k for k in res.stats if k.startswith('fault.') and res.stats[k]))
    res.sched_sig = ('dgram', doc['cls'].rsplit('.', 1)[1], fired, outcome, bool(doc.get('trailing')),
                     n is not None and n < len(raw), bool(doc.get('pad')))
    res.nontrivial = bool(fired) or (n is not None and n < len(raw))
    res.stats['runs.dgram'] += 1
    if n is not None and n < len(raw):
        res.stats['probe.accepted_with_trailing_bytes'] += 1
    if fired and n is not None:
        res.stats['probe.corrupted_input_accepted'] += 1


def _reused_buffer(cls, previous, raw, res):
    """The result depends only on the bytes in the buffer: a bytearray that held (and was parsed with) another unit
    before and was refilled in place gives what a fresh immutable copy of its content gives."""
    def outcome(func, arg):
        try:
            value = func(arg)
        except (core.RunTimeout, KeyboardInterrupt, SystemExit, core.HarnessError):
            raise
        except BaseException as exc:  # pylint: disable=broad-except
            return ('raised', wire.classify(exc), getattr(exc, 'bytes_needed', None) if wire.classify(exc) == 'ned' else None)
        if isinstance(value, tuple):
            return ('ok', canon(value[0]), value[1])
        return ('ok', canon(value), None)

    for entry in ('parse_immutable', 'parse_mutable'):
        buffer = bytearray(previous)
        outcome(getattr(cls, entry), buffer)
        buffer[:] = raw                                   # refilled in place: the same object, other content
        got = outcome(getattr(cls, entry), buffer)
        rest = bytes(buffer)
        fresh = bytearray(raw)
        want = outcome(getattr(cls, entry), bytes(raw) if entry == 'parse_immutable' else fresh)
        res.stats['probe.receive_buffer_object_reused'] += 1
        if got != want or (entry == 'parse_mutable' and rest != bytes(fresh)):
            res.violation((PROPERTY, 'depends-on-earlier-buffer-content', cls.__name__, entry),
                          'the result depends only on the bytes in the buffer',
                          '%s on a bytearray that held %d other bytes before and was refilled in place with %d bytes: '
                          '%s / %d bytes left; a fresh buffer with the same content: %s / %d bytes left' % (
                              entry, len(previous), len(raw), got[:2] if got[0] != 'ok' else ('ok', got[2]), len(rest),
                              want[:2] if want[0] != 'ok' else ('ok', want[2]), len(fresh)))
            return


def _exec_stream(doc, res):
    channel = workload.CHANNEL_BY_NAME[doc['channel']]
    cls = core.get_class(channel.cls_path)
    records = [bytes.fromhex(h) for h in doc['records']]
    clean = b''.join(records)
    stream = wire.apply_faults(clean, doc['faults'], res)
    junk = bytes.fromhex(doc['junk'])
    layer = wire.Layer(channel.name, cls, 'eager', res, PROPERTY, truth=None)
    outcomes = set()

    def on_step(layer_, status, snapshot, exc, obj, n):  # pylint: disable=unused-argument,too-many-arguments
        oracles.probe_c03(cls, snapshot, res, channel.framer, framing=True, junk=junk)
        outcomes.add(status if status == 'ok' else wire.classify(exc))
        if status == 'ok' and n is not None and n < len(snapshot):
            res.stats['probe.next_record_already_in_buffer'] += 1

    total = len(stream)
    for a, b in wire.chunks_from_cuts(total, doc['cuts']):
        res.event('transport', 'deliver', b - a)
        layer.feed(stream[a:b], eof=(b == total), on_step=on_step)
        guard = 0
        while layer.dead and doc.get('resync') and layer.buf and guard < 64:
            guard += 1
            declared = framer_mod.frame_length(channel.framer, bytes(layer.buf[:4096]))
            if declared is None or declared <= 0 or declared > len(layer.buf):
                break
            # the reader drops the rejected frame by the header-declared length and carries on
            del layer.buf[:declared]
            layer.dead = False
            res.stats['reader.resync'] += 1
            res.event('reader', 'resync', declared)
            layer.feed(b'', eof=(b == total), on_step=on_step)
        if res.violations:
            break
    if not doc['faults'] and not res.violations and not layer.dead:
        # fault-free and never rejected (a banner prefix is legitimately answered with invalid-value):
        # every record must have been delivered (consumed lengths are exact)
        if len(layer.delivered) != len(records) or layer.buf:
            res.violation((PROPERTY, 'stream-desynchronised', cls.__name__),
                          'consumed lengths of valid coalesced records must add up to the stream',
                          'sent %d records, delivered %d, %d bytes left' % (len(records), len(layer.delivered), len(layer.buf)))
    fired = tuple(sorted(k for k in res.stats if k.startswith('fault.') and res.stats[k]))
    res.sched_sig = ('stream', channel.name, min(len(records), 4), fired, tuple(sorted(outcomes)), len(doc['cuts']),
                     bool(doc.get('resync')))
    res.nontrivial = bool(fired) or res.stats.get('probe.next_record_already_in_buffer', 0) > 0
    res.stats['runs.stream' + ('.faulty' if doc['faults'] else '.clean')] += 1
    res.stats['sender.units_not_accepted_by_own_parser(C01-class, not sent)'] += len(doc.get('sender_discards', ()))


def shrink(doc, sig, budget):
    me = __import__('simverif.props.c03', fromlist=['x'])
    doc = dict(doc)

    def test_with(**changes):
        cand = dict(doc)
        cand.update(changes)
        return core.has_sig(me, cand, sig)

    if doc['kind'] in ('pairsweep', 'seedsweep'):
        result = core.guarded_execute(me, doc)
        for violation in result.violations:
            if violation['sig'] == sig and 'case' in violation and test_with(only=[violation['case']]):
                return dict(doc, only=[violation['case']])
        return doc
    if doc['kind'] == 'giant':
        return doc
    if doc['kind'] == 'dgram':
        doc['faults'] = core.ddmin_list(doc['faults'], lambda c: test_with(faults=c), budget)
        if doc.get('trailing') and test_with(trailing=''):
            doc['trailing'] = ''
        if doc.get('pad') and test_with(pad=None):
            doc['pad'] = None
        if doc.get('previous') and test_with(previous=None):
            doc['previous'] = None
        if not doc['faults']:
            keep = 0
            doc['hex'] = core.shrink_bytes(bytes.fromhex(doc['hex']), lambda c: test_with(hex=c.hex()), budget, keep).hex()
        else:
            # fold the faults into the input, then shrink the bytes
            folded = wire.apply_faults(bytes.fromhex(doc['hex']), doc['faults']).hex()
            if test_with(hex=folded, faults=[]):
                doc['hex'], doc['faults'] = folded, []
                doc['hex'] = core.shrink_bytes(bytes.fromhex(doc['hex']), lambda c: test_with(hex=c.hex()), budget).hex()
    else:
        doc['faults'] = core.ddmin_list(doc['faults'], lambda c: test_with(faults=c), budget)
        doc['records'] = core.ddmin_list(doc['records'], lambda c: bool(c) and test_with(records=c), budget)
        doc['cuts'] = core.ddmin_list(doc['cuts'], lambda c: test_with(cuts=c), budget)
    return doc


BUDGET = {'quick': (60000, 75.0), 'thorough': (1500000, 900.0)}


def check(tier, seed):
    began = time.time()
    me = __import__('simverif.props.c03', fromlist=['x'])
    extra = prepare(tier)
    histories = core.history_batch(me, seed, tier, extra)      # first: this process has executed no run yet
    core.determinism_selftest(me, seed, tier, extra, count=40)
    n_runs, wall = BUDGET[tier]
    pairs = core.run_batch(me, seed, tier, len(workload.STREAM_CHANNELS) * (PAIR_SEEDS if tier == 'quick' else 12), 600.0,
                           {'phase': 'pairsweep'}, chunk=1)
    seeds = core.run_batch(me, seed, tier, len(seed_sweep_list()), 900.0, {'phase': 'seedsweep'}, chunk=4)
    batch = core.merge_batches([pairs, seeds, core.run_batch(me, seed, tier, n_runs, wall, extra), histories])
    coverage = core.coverage_from_batch(
        batch, RULE, fault_kinds=wire.FAULT_KINDS,
        probes=('accepted_with_trailing_bytes', 'corrupted_input_accepted', 'next_record_already_in_buffer'),
        components={
            'real': ['cryptoparser compose() (sender)', 'parse_immutable / parse_mutable / parse_exact_size of every '
                     'corpus class (reader calls)', 'asn1crypto / cryptodatahub / dateutil as imported by the library'],
            'simulated': ['transport: coalescing and transit faults on the byte stream',
                          'reader loop with framer-based re-synchronisation', 'reference framer (written from the specs)'],
            'stubbed': [],
        },
        extra={'classes_in_corpus': len(corpus.class_paths())})
    assumptions = [
        'the reference framer encodes the header layouts of the specifications correctly',
        'object equality is canon() equality (several classes define no __eq__)',
        'sampling: a clean batch is evidence, not proof',
    ]
    return core.report_and_exit(me, batch, seed, tier, coverage, assumptions, LEVEL, began)
