# -*- coding: utf-8 -*-
"""C02 - parsing untrusted bytes fails only with the documented parse errors.

Phase A (fault enumeration): for every accepted corpus seed of at most 256 bytes, every
truncation point and every single-byte overwrite from a fixed set at every offset.
Phase B (exploration): seeded multi-fault schedules on datagrams of every corpus class, on
streams of library-composed records (with the TLS / SSL second layer: a corrupted record that
still frames is handed on to the sub-protocol parser, as a client would), all entry points."""

import time

from simverif import core, corpus, oracles, wire, wirefault, workload

PROPERTY = 'C02'
LEVEL = 'fault_enumeration'

SWEEP_VALUES = (0x00, 0x01, 0x7f, 0x80, 0xff)
SWEEP_MAX_LEN = 256
# text seeds additionally get every grammar-significant character at every offset
TEXT_SWEEP_VALUES = tuple(b':=;, "\\\r\n/%{}*-0')
# second enumerated fault set: a maximal / minimal integer written over every offset (hostile length and count fields)
FIELD_VALUES = {2: (0xffff, 0x0000), 3: (0xffffff, ), 4: (0xffffffff, 0x00000000, 0x7fffffff),
                8: (0xffffffffffffffff, 0x8000000000000000, 0x7fffffffffffffff, 0x0000000100000000)}
FIELD_MAX_LEN = 1024

RULE = (
    'phase A enumerates finite fault sets completely: for each accepted corpus seed <= %d bytes, every truncation '
    'length 0..len-1 and every overwrite of every offset with each of %s (text seeds also with each of : = ; , space " \\ CR LF / %% { } * - 0); '
    'for each binary seed <= 1024 bytes every offset overwritten with extreme 2/3/4-byte integers (one evaluation = one seed swept). Phase B: '
    'one evaluation = one faulted datagram of a corpus class (1-3 faults from flip/set/length-field/truncate/drop/dup/'
    'swap/insert/splice, biased to length fields and text separators) given to the entry points, or one faulted '
    'stream of composed records read by a reader loop that forwards accepted TLS/SSL records to the sub-protocol '
    'parser. Signature = (kind, class or channel, fault kinds fired, outcome classes); non-trivial = a fault fired.'
    % (SWEEP_MAX_LEN, ','.join('0x%02x' % v for v in SWEEP_VALUES))
)

_SWEEP_LIST = None


def sweep_list():
    global _SWEEP_LIST  # pylint: disable=global-statement
    if _SWEEP_LIST is None:
        out = []
        for path in corpus.class_paths():
            for raw in corpus.accepted(path):
                if len(raw) <= SWEEP_MAX_LEN:
                    out.append((path, raw.hex()))
        _SWEEP_LIST = out
    return _SWEEP_LIST


_FIELD_LIST = None


def field_list():
    global _FIELD_LIST  # pylint: disable=global-statement
    if _FIELD_LIST is None:
        out = []
        for path in corpus.class_paths():
            seeds = corpus.accepted(path)
            # ... and up to four of the derived valid inputs (edited fields, emptied fields, optional fields set)
            seeds = seeds + [raw for raw in corpus.variants(path) if raw not in seeds][-4:]
            for raw in seeds:
                if 1 < len(raw) <= FIELD_MAX_LEN and not wirefault.is_text(raw):
                    out.append((path, raw.hex()))
        _FIELD_LIST = out
    return _FIELD_LIST


_NAME_LIST = None
NAME_MAX_LEN = 4096


def name_list():
    """Accepted inputs that carry at least one name of a known enumeration (algorithm / protocol names, keywords)."""
    global _NAME_LIST  # pylint: disable=global-statement
    if _NAME_LIST is None:
        out = []
        for path in corpus.class_paths():
            for raw in corpus.accepted(path):
                if len(raw) <= NAME_MAX_LEN and wirefault.name_occurrences(raw, limit=1):
                    out.append((path, raw.hex()))
        _NAME_LIST = out
    return _NAME_LIST


_DOUBLE_LIST = None


def double_list():
    global _DOUBLE_LIST  # pylint: disable=global-statement
    if _DOUBLE_LIST is None:
        out = []
        for path in corpus.class_paths():
            for raw in corpus.accepted(path)[:3]:
                if 2 <= len(raw) <= 160:
                    out.append((path, raw.hex()))
        _DOUBLE_LIST = out
    return _DOUBLE_LIST


_PAIR_LIST = None


def pair_list():
    global _PAIR_LIST  # pylint: disable=global-statement
    if _PAIR_LIST is None:
        _PAIR_LIST = [(path, hexdata) for path, hexdata in field_list()
                      if len(hexdata) <= 1400 and len(_prefixed_spans(bytes.fromhex(hexdata))) >= 2]
    return _PAIR_LIST


def prepare(tier):  # pylint: disable=unused-argument
    corpus.warm_variants()
    workload.pools()
    sweep_list()
    field_list()
    pair_list()
    double_list()
    name_list()
    wrap_table()
    return {'phase': 'explore'}


def generate(rng, index, tier, extra):
    try:
        return _generate(rng, index, tier, extra)
    except workload.SenderRejected:
        # the sender of a stream channel is unusable on this tree (not this property's concern): send a datagram
        path = rng.choice(corpus.class_paths())
        raw = rng.choice(corpus.accepted(path) or corpus.rejected(path))
        return {'kind': 'dgram', 'cls': path, 'hex': raw.hex(), 'faults': wirefault.gen_faults(rng, raw),
                'entry': 'parse_immutable', 'trailing': '', 'junk': '00'}


def _generate(rng, index, tier, extra):  # pylint: disable=unused-argument
    if extra and extra.get('phase') == 'sweep':
        path, hexdata = sweep_list()[index]
        return {'kind': 'sweep', 'cls': path, 'hex': hexdata}
    if extra and extra.get('phase') == 'fields':
        path, hexdata = field_list()[index]
        return {'kind': 'sweep', 'cls': path, 'hex': hexdata, 'fields': True}
    if extra and extra.get('phase') == 'double':
        path, hexdata = double_list()[index]
        return {'kind': 'sweep', 'cls': path, 'hex': hexdata, 'double': tier}
    if extra and extra.get('phase') == 'pairs':
        path, hexdata = pair_list()[index]
        return {'kind': 'sweep', 'cls': path, 'hex': hexdata, 'pairs': True}
    if extra and extra.get('phase') == 'consts':
        path, hexdata = field_list()[index]
        return {'kind': 'sweep', 'cls': path, 'hex': hexdata, 'consts': True}
    if extra and extra.get('phase') == 'bigint':
        path, hexdata = field_list()[index]
        return {'kind': 'sweep', 'cls': path, 'hex': hexdata, 'bigint': 'all' if tier == 'thorough' else 1200}
    if extra and extra.get('phase') == 'names':
        path, hexdata = name_list()[index]
        return {'kind': 'sweep', 'cls': path, 'hex': hexdata, 'names': 'all' if tier == 'thorough' else 1500}
    roll = rng.random()
    if roll < 0.14 and wrap_table():
        wrapper, path = rng.choice(wrap_table())
        raw = rng.choice(corpus.accepted_plus(path))
        faults = wirefault.gen_faults(rng, raw) if rng.random() < 0.85 else []
        if wirefault.is_text(raw) and rng.random() < 0.7:
            faults = (wirefault.typed_faults(rng, raw) if rng.random() < 0.5 else wirefault.token_faults(rng, raw))
        return {'kind': 'wrapped', 'wrapper': wrapper, 'inner': path, 'hex': raw.hex(), 'faults': faults}
    if roll < 0.72:
        paths = corpus.class_paths()
        path = rng.choice(paths)
        seeds = corpus.accepted_plus(path)
        bad = corpus.rejected(path)
        raw = rng.choice(bad) if bad and (not seeds or rng.random() < 0.25) else rng.choice(seeds)
        if rng.random() < 0.08:
            # cross-feed: a valid message of a sibling class (same module) given to this class
            module = path.rsplit('.', 1)[0]
            siblings = [p for p in paths if p.startswith(module + '.') and p != path and corpus.accepted(p)]
            if siblings:
                raw = rng.choice(corpus.accepted(rng.choice(siblings)))
        faults = wirefault.gen_faults(rng, raw, framer_name=None) if rng.random() < 0.9 else []
        if rng.random() < 0.25:
            faults += wirefault.text_faults(rng, raw)
        if wirefault.is_text(raw) and rng.random() < 0.35:
            faults = (wirefault.typed_faults(rng, raw) if rng.random() < 0.4 else wirefault.token_faults(rng, raw)) + (faults if rng.random() < 0.3 else [])
        if rng.random() < 0.1:
            other = rng.choice(corpus.accepted(rng.choice(paths)) or [b''])
            faults.append({'k': 'insert', 'at': rng.randrange(len(raw) + 1), 'hex': other[:64].hex()})
        entry = rng.choice(('parse_immutable', 'parse_immutable', 'parse_exact_size', 'parse_mutable', 'all'))
        return {'kind': 'dgram', 'cls': path, 'hex': raw.hex(), 'faults': faults, 'entry': entry}
    channel = rng.choice(workload.STREAM_CHANNELS)
    discards = []
    records = [channel.make(rng, discards) for _ in range(rng.choice((1, 2, 2, 3, 4)))]
    stream = b''.join(records)
    bounds, pos = [], 0
    for rec in records:
        pos += len(rec)
        bounds.append(pos)
    faults = wirefault.gen_faults(rng, stream, bounds, channel.framer)
    total = len(stream)
    cuts = sorted(rng.sample(range(1, total), min(total - 1, rng.choice((0, 1, 2, 5))))) if total > 1 else []
    return {'kind': 'stream', 'channel': channel.name, 'records': [r.hex() for r in records], 'faults': faults,
            'cuts': cuts, 'sender_discards': discards}


# mutated item -> bytes of an enclosing message (the item's own length fields are left as the faults made them)
def _u(n, size):
    return (n % (1 << (8 * size))).to_bytes(size, 'big')


def _wrap_ext_list(inner):
    return _u(len(inner), 2) + inner


def _wrap_client_hello(inner):
    body = b'\x03\x03' + bytes(32) + b'\x00' + b'\x00\x02\x00\x2f' + b'\x01\x00' + _u(len(inner), 2) + inner
    return b'\x01' + _u(len(body), 3) + body


def _wrap_server_hello(inner):
    body = b'\x03\x03' + bytes(32) + b'\x00' + b'\x00\x2f' + b'\x00' + _u(len(inner), 2) + inner
    return b'\x02' + _u(len(body), 3) + body


def _wrap_dh_reply(inner):
    return b'\x1f' + _u(len(inner), 4) + inner + _u(2, 4) + b'ab' + _u(2, 4) + b'cd'


def _wrap_header_block(inner):
    return inner + b'\r\n\r\n'


def _wrap_spf(inner):
    return b'v=spf1 ' + inner + b' -all'


def _wrap_csp(inner):
    return b"default-src 'self'; " + inner


def _wrap_sct_list(inner):
    return _u(len(inner), 2) + inner


WRAPPERS = (
    # (wrapper name, container class path, function, predicate on the inner class path)
    ('ext-list-client', 'cryptoparser.tls.extension.TlsExtensionsClient', _wrap_ext_list,
     lambda p: '.tls.extension.TlsExtension' in p and not p.endswith(('sClient', 'sServer', 'Factory')) and not p.endswith('Server')),
    ('client-hello', 'cryptoparser.tls.subprotocol.TlsHandshakeClientHello', _wrap_client_hello,
     lambda p: '.tls.extension.TlsExtension' in p and not p.endswith(('sClient', 'sServer', 'Factory')) and not p.endswith('Server')),
    ('ext-list-server', 'cryptoparser.tls.extension.TlsExtensionsServer', _wrap_ext_list,
     lambda p: '.tls.extension.TlsExtension' in p and not p.endswith(('sClient', 'sServer', 'Factory')) and not p.endswith('Client')),
    ('server-hello', 'cryptoparser.tls.subprotocol.TlsHandshakeServerHello', _wrap_server_hello,
     lambda p: '.tls.extension.TlsExtension' in p and not p.endswith(('sClient', 'sServer', 'Factory')) and not p.endswith('Client')),
    ('dh-reply', 'cryptoparser.ssh.subprotocol.SshDHKeyExchangeReply', _wrap_dh_reply,
     lambda p: '.ssh.key.SshHost' in p or p.endswith(('SshX509Certificate', 'SshX509CertificateChain'))),
    ('header-block', 'cryptoparser.httpx.header.HttpHeaderFields', _wrap_header_block,
     lambda p: '.httpx.header.HttpHeaderField' in p and 'Value' not in p and not p.endswith('Fields')),
    ('spf-record', 'cryptoparser.dnsrec.txt.DnsRecordTxtValueSpf', _wrap_spf,
     lambda p: 'SpfDirective' in p or 'SpfModifier' in p),
    ('csp-value', 'cryptoparser.httpx.header.HttpHeaderFieldValueContentSecurityPolicy', _wrap_csp,
     lambda p: 'ContentSecurityPolicyDirective' in p and not p.endswith(('Type', 'Variant'))),
    ('sct-list', 'cryptoparser.common.x509.SignedCertificateTimestampList', _wrap_sct_list,
     lambda p: p.endswith('.SignedCertificateTimestamp')),
    ('header-value-in-block', 'cryptoparser.httpx.header.HttpHeaderFields', None,
     lambda p: p in header_names()),
)
_HEADER_NAMES = None


def header_names():
    """value class path -> header field name, from the library's own header field classes."""
    global _HEADER_NAMES  # pylint: disable=global-statement
    if _HEADER_NAMES is None:
        names = {}
        try:
            import cryptoparser.httpx.header as header_module
            for attr_name in sorted(vars(header_module)):
                obj = vars(header_module)[attr_name]
                if isinstance(obj, type) and hasattr(obj, '_get_value_class') and hasattr(obj, 'get_header_field_name'):
                    try:
                        value_class = obj._get_value_class()  # pylint: disable=protected-access
                        name = obj.get_header_field_name().value.normalized_name
                    except Exception:  # abstract base  # pylint: disable=broad-except
                        continue
                    names[core.class_path(value_class)] = name.encode('ascii')
        except ImportError:  # pragma: no cover
            pass
        _HEADER_NAMES = names
    return _HEADER_NAMES


def _wrap_header_value(inner, path):
    return header_names()[path] + b': ' + inner + b'\r\n\r\n'


_WRAP_TABLE = None


def wrap_table():
    """[(wrapper index, inner class path)] for inner classes that have accepted seeds."""
    global _WRAP_TABLE  # pylint: disable=global-statement
    if _WRAP_TABLE is None:
        table = []
        for index, (_, container, _, predicate) in enumerate(WRAPPERS):
            if corpus.resolve(container) is None:
                continue
            for path in corpus.class_paths():
                if predicate(path) and corpus.accepted(path):
                    table.append((index, path))
        _WRAP_TABLE = table
    return _WRAP_TABLE


def execute(doc):
    res = core.Result()
    kind = doc['kind']
    if kind == 'wrapped':
        _exec_wrapped(doc, res)
        return res
    if kind == 'sweep':
        _exec_sweep(doc, res)
    elif kind == 'dgram':
        _exec_dgram(doc, res)
    elif kind == 'stream':
        _exec_stream(doc, res)
    else:
        raise core.HarnessError('unknown schedule kind %r' % kind)
    return res


def _entries(entry):
    return oracles.ENTRY_POINTS if entry == 'all' else (entry, )


_FILL_ONE = {'zero': lambda n: b'\x00' * n, 'one': lambda n: b'\x00' * (n - 1) + b'\x01',
             'top': lambda n: b'\x01' + b'\x00' * (n - 1), 'ones': lambda n: b'\xff' * n,
             'sign': lambda n: b'\x80' + b'\x00' * (n - 1)}
_FILL_HALVES = ('one', 'zero', 'top', 'ones')


def _fill(length, pattern):
    """pattern: a single value name, 'a+b' for two halves, or '4a+b' for an 0x04 octet followed by two halves."""
    lead = b''
    if pattern.startswith('4'):
        lead, pattern, length = b'\x04', pattern[1:], length - 1
    if '+' in pattern:
        first, second = pattern.split('+')
        return lead + _FILL_ONE[first](length // 2) + _FILL_ONE[second](length - length // 2)
    return lead + _FILL_ONE[pattern](length)


SUFFIX_TOKENS = (b'!10m', b'!10x', b'!0', b'!x', b'/33', b'/129', b'//', b':65536', b':x', b'=', b'=""', b'*', b'%', b'..', b'-',
                 b'+', b'!', b'?', b'#', b'@')


def _dep_constant_sites(raw):
    """Places where the input holds a byte-string constant of one of the dependency's tables (a CT log id, ...):
    [(start, end, the other constants of the same table)]."""
    out = []
    for table in wirefault.dependency_constant_tables():
        for const in table:
            at = raw.find(const)
            if at >= 0:
                out.append((at, at + len(const), [other for other in table if other != const]))
                break
    return out


def _prefixed_spans(raw, limit=12):
    """(start, length) of values behind a 4- or 2-octet big-endian length prefix that fits exactly."""
    out = []
    for size in (4, 2):
        for at in range(0, len(raw) - size):
            length = int.from_bytes(raw[at:at + size], 'big')
            start = at + size
            if 1 <= length <= 600 and start + length <= len(raw) and (size == 4 or raw[at] == 0 or length > 255):
                if all(not (start < s + l and s < start + length) or (s <= start and start + length <= s + l) or
                       (start <= s and s + l <= start + length) for s, l in out):
                    out.append((start, length))
                    if len(out) >= limit:
                        return out
    return out


def _replace_span(data, original, start, length, new):
    """data with data[start:start+length] replaced; the prefix in front of the span and every length field before it
    that covers it (judged on the original input) are adjusted."""
    delta = len(new) - length
    out = bytearray(data[:start] + new + data[start + length:])
    if delta:
        fixed = set()
        for size in (4, 3, 2):
            for pos in range(0, start - size + 1):
                if fixed.intersection(range(pos, pos + size)):
                    continue
                value = int.from_bytes(original[pos:pos + size], 'big')
                current = int.from_bytes(out[pos:pos + size], 'big')
                if value and start + length <= pos + size + value <= len(original) and pos + size <= start and \
                        0 <= current + delta < (1 << (8 * size)) and (size == 4 or original[pos] == 0 or value > 255):
                    out[pos:pos + size] = (current + delta).to_bytes(size, 'big')
                    fixed.update(range(pos, pos + size))
    return bytes(out)


def _pair_fault(raw, a_start, a_length, small, b_start, b_length, big):
    small_value = {'empty': b'', 'zero': b'\x00' * a_length, 'one': b'\x00' * (a_length - 1) + b'\x01'}[small]
    big_value = (raw[b_start:b_start + b_length] * (big // max(1, b_length) + 1))[:big]
    if big_value[:1] >= b'\x80':
        big_value = b'\x7f' + big_value[1:]
    # the later span first, so that the offsets of the earlier one stay valid
    first, second = sorted(((a_start, a_length, small_value), (b_start, b_length, big_value)), reverse=True)
    data = _replace_span(raw, raw, first[0], first[1], first[2])
    return _replace_span(data, raw, second[0], second[1], second[2])


def _fill_spans(raw):
    """[(offset, length, patterns)]: contents of plausible length-prefixed spans (4-, 2-, 1-octet prefix holding
    exactly a length that fits) and even-length tails of the input."""
    halves = ['%s+%s' % (a, b) for a in _FILL_HALVES for b in _FILL_HALVES]
    out = []
    seen = set()
    for size, minimum in ((4, 1), (2, 2), (1, 16)):
        for at in range(0, len(raw) - size):
            length = int.from_bytes(raw[at:at + size], 'big')
            start = at + size
            if not minimum <= length <= 600 or start + length > len(raw) or (start, length) in seen:
                continue
            seen.add((start, length))
            patterns = list(_FILL_ONE)
            if length >= 8 and length % 2 == 0:
                patterns += halves
            if length >= 9 and length % 2 == 1 and raw[start] == 4:
                patterns += ['4' + item for item in halves]
            out.append((start, length, patterns))
    for start in range(0, len(raw) - 7):
        length = len(raw) - start
        if length % 2 == 0 and length <= 300 and (start, length) not in seen:
            out.append((start, length, halves))
    return out


def _exec_sweep(doc, res):
    cls = corpus.resolve(doc['cls']) or core.get_class(doc['cls'])
    raw = bytes.fromhex(doc['hex'])
    only = doc.get('only')   # minimised replay: [(mode, offset, value)]
    oracles.probe_c02(cls, raw, res, oracles.ENTRY_POINTS)
    cases = 0
    if only is not None:
        plan = [tuple(item) for item in only]
    elif doc.get('fields'):
        plan = [('field%d' % size, off, val) for size, values in sorted(FIELD_VALUES.items()) for val in values
                for off in range(0, len(raw) - size + 1)]
    elif doc.get('pairs'):
        # two faults that must coincide: one length-prefixed value emptied / zeroed / set to one, another one grown to
        # a few thousand octets (lengths in front kept consistent) - an invalid small value next to a huge one
        spans = [(start, length) for start, length in _prefixed_spans(raw)]
        plan = [('pair', a_start, '%d:%s:%d:%d:%d' % (a_length, small, b_start, b_length, big))
                for a_start, a_length in spans for b_start, b_length in spans
                if a_start + a_length <= b_start - 1 or b_start + b_length <= a_start - 1
                for small in ('empty', 'zero', 'one') for big in (2000, 4500)]
        if len(plan) > 1500:
            step = len(plan) / 1500.0
            plan = [plan[int(k * step)] for k in range(1500)]
    elif doc.get('double'):
        # two single faults that must coincide.  (a) small inputs: every pair of offsets overwritten with 00 / 80 / ff;
        # (b) inputs up to 160 octets: one of the last 16 truncations together with one octet set to 80 / ff
        plan = []
        values = (0x00, 0xff) if doc['double'] == 'quick' else (0x00, 0x80, 0xff)
        if len(raw) <= (64 if doc['double'] == 'quick' else 96):
            plan += [('two', first, '%d:%d:%d' % (v1, second, v2)) for first in range(len(raw))
                     for second in range(first + 1, len(raw)) for v1 in values for v2 in values]
        if len(raw) <= 160:
            plan += [('cutset', cut, '%d:%d' % (offset, value)) for cut in range(max(1, len(raw) - 16), len(raw))
                     for offset in range(cut) for value in (0x80, 0xff)]
    elif doc.get('consts'):
        # every byte-string constant the library defines, written over every offset
        plan = [('const', off, const.hex()) for const in wirefault.byte_constants()
                for off in range(0, len(raw) - len(const) + 1)]
    elif doc.get('bigint'):
        # every length-prefixed span (and every even-length tail) filled with the boundary values of a big integer or
        # of a pair of coordinates: 0, 1, 256^k, all ones, the sign bit
        plan = [('fill', off, '%d:%s' % (length, pattern)) for off, length, patterns in _fill_spans(raw)
                for pattern in patterns]
        if doc['bigint'] != 'all' and len(plan) > doc['bigint']:
            step = len(plan) / float(doc['bigint'])
            plan = [plan[int(k * step)] for k in range(doc['bigint'])]
    elif doc.get('names'):
        # every name the input carries, replaced by every other name of the same enumeration (lengths kept consistent)
        plan = [('name', start, '%d:%s' % (end, token.hex())) for start, end, tokens in wirefault.name_occurrences(raw)
                for token in tokens if token != raw[start:end]]
        if doc['names'] != 'all' and len(plan) > doc['names']:
            step = len(plan) / float(doc['names'])
            plan = [plan[int(k * step)] for k in range(doc['names'])]
    else:
        plan = [('trunc', cut, 0) for cut in range(len(raw))]
        values = SWEEP_VALUES + (TEXT_SWEEP_VALUES if wirefault.is_text(raw) else ())
        plan += [('set', off, val) for off in range(len(raw)) for val in values if raw[off] != val]
        if wirefault.is_text(raw):
            # short grammar fragments inserted at the end of every value (before a separator / at the end): size and
            # prefix-length suffixes, ports, stray operators
            ends = sorted({idx for idx, byte in enumerate(raw) if byte in b';, \r\n' and idx} | {len(raw)})
            plan += [('ins', end, token.hex()) for end in ends[:48] for token in SUFFIX_TOKENS]
        plan += [('swap', start, '%d:%s' % (end, other.hex())) for start, end, others in _dep_constant_sites(raw)
                 for other in others]
    for mode, off, val in plan:
        if mode == 'trunc':
            data = raw[:off]
            res.stats['fault.trunc'] += 1
            entries = oracles.ENTRY_POINTS
        elif mode == 'pair':
            a_length, small, b_start, b_length, big = val.split(':')
            data = _pair_fault(raw, off, int(a_length), small, int(b_start), int(b_length), int(big))
            if data is None or data == raw:
                continue
            res.stats['fault.pair'] += 1
            entries = ('parse_immutable', )
        elif mode == 'ins':
            data = raw[:off] + bytes.fromhex(val) + raw[off:]
            res.stats['fault.insert'] += 1
            entries = ('parse_immutable', )
        elif mode == 'swap':
            end, other = val.split(':')
            data = raw[:off] + bytes.fromhex(other) + raw[int(end):]
            res.stats['fault.const'] += 1
            entries = ('parse_immutable', )
        elif mode == 'two':
            v1, second, v2 = (int(item) for item in val.split(':'))
            data = bytearray(raw)
            data[off], data[second] = v1, v2
            data = bytes(data)
            if data == raw:
                continue
            res.stats['fault.set'] += 2
            entries = ('parse_immutable', )
        elif mode == 'cutset':
            offset, value = (int(item) for item in val.split(':'))
            data = bytearray(raw[:off])
            data[offset] = value
            data = bytes(data)
            res.stats['fault.trunc'] += 1
            res.stats['fault.set'] += 1
            entries = ('parse_immutable', )
        elif mode == 'const':
            const = bytes.fromhex(val)
            data = raw[:off] + const + raw[off + len(const):]
            if data == raw:
                continue
            res.stats['fault.const'] += 1
            entries = ('parse_immutable', )
        elif mode == 'fill':
            length, pattern = val.split(':')
            data = raw[:off] + _fill(int(length), pattern) + raw[off + int(length):]
            if data == raw:
                continue
            res.stats['fault.fill'] += 1
            entries = ('parse_immutable', )
        elif mode == 'name':
            end, token = val.split(':')
            data = wirefault.substitute_name(raw, off, int(end), bytes.fromhex(token))
            res.stats['fault.name'] += 1
            entries = ('parse_immutable', )
        elif mode.startswith('field'):
            size = int(mode[5:])
            data = raw[:off] + val.to_bytes(size, 'big') + raw[off + size:]
            if data == raw:
                continue
            res.stats['fault.lenfield'] += 1
            entries = ('parse_immutable', )
        else:
            data = raw[:off] + bytes((val, )) + raw[off + 1:]
            res.stats['fault.set'] += 1
            entries = ('parse_immutable', )
        before = len(res.violations)
        oracles.probe_c02(cls, data, res, entries)
        for violation in res.violations[before:]:
            violation['case'] = [mode, off, val]
        cases += 1
    res.sim_events += cases
    res.stats['sweep.cases'] += cases
    res.stats['sweep.seeds'] += 1
    res.sched_sig = ('sweep', doc['cls'], doc['hex'][:16], len(raw))
    res.nontrivial = len(raw) > 0


def _exec_wrapped(doc, res):
    """A faulted item inside its enclosing message: parsers of containers compose / size / convert their items,
    so an item that is accepted alone may still make the enclosing parse fail in an undocumented way."""
    name, container, wrap, _ = WRAPPERS[doc['wrapper']]
    cls = corpus.resolve(container) or core.get_class(container)
    inner = wire.apply_faults(bytes.fromhex(doc['hex']), doc['faults'], res)
    raw = wrap(inner) if wrap is not None else _wrap_header_value(inner, doc['inner'])
    outcome = oracles.probe_c02(cls, raw, res, ('parse_immutable', ), label=name)
    res.sim_events += 1
    fired = tuple(sorted(k for k in res.stats if k.startswith('fault.') and res.stats[k]))
    res.sched_sig = ('wrapped', name, doc['inner'].rsplit('.', 1)[1], fired, outcome)
    res.nontrivial = bool(fired)
    res.stats['runs.wrapped'] += 1
    if outcome == 'ok':
        res.stats['probe.faulted_item_accepted_inside_container'] += 1


def _exec_dgram(doc, res):
    cls = corpus.resolve(doc['cls']) or core.get_class(doc['cls'])
    raw = wire.apply_faults(bytes.fromhex(doc['hex']), doc['faults'], res)
    outcome = oracles.probe_c02(cls, raw, res, _entries(doc.get('entry', 'all')))
    res.sim_events += 1
    fired = tuple(sorted(k for k in res.stats if k.startswith('fault.') and res.stats[k]))
    res.sched_sig = ('dgram', doc['cls'].rsplit('.', 1)[1], fired, outcome, doc.get('entry'))
    res.nontrivial = bool(fired)
    res.stats['runs.dgram'] += 1
    if fired and outcome == 'ok':
        res.stats['probe.corrupted_input_accepted'] += 1


def _second_layer(channel_name, obj, res):
    """What a client does with an accepted record: open its fragment with the sub-protocol parser."""
    if channel_name == 'tls_record':
        from cryptoparser.tls.subprotocol import TlsSubprotocolMessageParser
        parser = TlsSubprotocolMessageParser(obj.content_type)
        data = bytes(obj.fragment)
        label = 'TlsSubprotocolMessageParser'
    elif channel_name == 'mysql':
        from cryptoparser.tls.mysql import MySQLHandshakeV10
        oracles.probe_c02(MySQLHandshakeV10, bytes(obj.packet_bytes), res, ('parse_immutable', ))
        res.stats['probe.second_layer_parse'] += 1
        return
    elif channel_name == 'tpkt':
        from cryptoparser.tls.rdp import COTPConnectionConfirm
        oracles.probe_c02(COTPConnectionConfirm, bytes(obj.message), res, ('parse_immutable', ))
        res.stats['probe.second_layer_parse'] += 1
        return
    elif channel_name == 'openvpn_tcp':
        from cryptoparser.tls.openvpn import OpenVpnPacketVariant
        oracles.probe_c02(OpenVpnPacketVariant, bytes(obj.payload), res, ('parse_immutable', ))
        res.stats['probe.second_layer_parse'] += 1
        return
    else:
        return
    res.stats['probe.second_layer_parse'] += 1
    try:
        parser.parse(data)
        kind = 'ok'
    except (core.RunTimeout, KeyboardInterrupt, SystemExit, core.HarnessError):
        raise
    except BaseException as exc:  # pylint: disable=broad-except
        kind = wire.classify(exc)
        if kind == 'foreign':
            res.violation(wire.leak_signature(PROPERTY, exc), 'undocumented exception escaped the sub-protocol parser',
                          '%s(%r).parse(%d bytes %s) raised %s: %s' % (
                              label, obj.content_type, len(data), data[:40].hex(), type(exc).__name__, str(exc)[:200]))
    res.note(label, kind)


def _exec_stream(doc, res):
    channel = workload.CHANNEL_BY_NAME[doc['channel']]
    cls = core.get_class(channel.cls_path)
    records = [bytes.fromhex(h) for h in doc['records']]
    stream = wire.apply_faults(b''.join(records), doc['faults'], res)
    layer = wire.Layer(channel.name, cls, 'eager', res, PROPERTY, truth=None)
    outcomes = set()

    def on_step(layer_, status, snapshot, exc, obj, n):  # pylint: disable=unused-argument,too-many-arguments
        if status == 'ok':
            outcomes.add('ok')
            _second_layer(channel.name, obj, res)
            return
        kind = wire.classify(exc)
        outcomes.add(kind)
        if kind == 'foreign':
            res.violation(wire.leak_signature(PROPERTY, exc), 'undocumented exception escaped parse_mutable',
                          '%s.parse_mutable(%d bytes %s) raised %s: %s' % (
                              cls.__name__, len(snapshot), snapshot[:48].hex(), type(exc).__name__, str(exc)[:200]))

    total = len(stream)
    for a, b in wire.chunks_from_cuts(total, doc['cuts']):
        res.event('transport', 'deliver', b - a)
        layer.feed(stream[a:b], eof=(b == total), on_step=on_step)
        if layer.dead:
            break
    fired = tuple(sorted(k for k in res.stats if k.startswith('fault.') and res.stats[k]))
    res.sched_sig = ('stream', channel.name, min(len(records), 3), fired, tuple(sorted(outcomes)))
    res.nontrivial = bool(fired)
    res.stats['runs.stream'] += 1
    res.stats['sender.units_not_accepted_by_own_parser(C01-class, not sent)'] += len(doc.get('sender_discards', ()))


def shrink(doc, sig, budget):
    me = __import__('simverif.props.c02', fromlist=['x'])
    doc = dict(doc)

    def test_with(**changes):
        cand = dict(doc)
        cand.update(changes)
        return core.has_sig(me, cand, sig)

    if doc['kind'] == 'sweep':
        res = core.guarded_execute(me, doc)
        for violation in res.violations:
            if violation['sig'] == sig and 'case' in violation:
                mode, off, val = violation['case']
                raw = bytes.fromhex(doc['hex'])
                if mode == 'trunc':
                    data = raw[:off]
                elif mode.startswith('field'):
                    data = raw[:off] + val.to_bytes(int(mode[5:]), 'big') + raw[off + int(mode[5:]):]
                else:
                    data = raw[:off] + bytes((val, )) + raw[off + 1:]
                cand = {'kind': 'dgram', 'cls': doc['cls'], 'hex': data.hex(), 'faults': [], 'entry': 'all'}
                if core.has_sig(me, cand, sig):
                    doc = cand
                else:
                    return dict(doc, only=[[mode, off, val]])
                break
        else:
            return doc
    if doc['kind'] == 'dgram':
        folded = wire.apply_faults(bytes.fromhex(doc['hex']), doc['faults']).hex()
        if test_with(hex=folded, faults=[]):
            doc['hex'], doc['faults'] = folded, []
        else:
            doc['faults'] = core.ddmin_list(doc['faults'], lambda c: test_with(faults=c), budget)
        for entry in oracles.ENTRY_POINTS:
            if doc.get('entry') != entry and test_with(entry=entry):
                doc['entry'] = entry
                break
        if not doc['faults']:
            doc['hex'] = core.shrink_bytes(bytes.fromhex(doc['hex']), lambda c: test_with(hex=c.hex()), budget).hex()
    elif doc['kind'] == 'wrapped':
        doc['faults'] = core.ddmin_list(doc['faults'], lambda c: test_with(faults=c), budget)
    elif doc['kind'] == 'stream':
        doc['faults'] = core.ddmin_list(doc['faults'], lambda c: test_with(faults=c), budget)
        doc['records'] = core.ddmin_list(doc['records'], lambda c: bool(c) and test_with(records=c), budget)
        doc['cuts'] = core.ddmin_list(doc['cuts'], lambda c: test_with(cuts=c), budget)
    return doc


BUDGET = {'quick': (240000, 80.0), 'thorough': (6000000, 1200.0)}


def check(tier, seed):
    began = time.time()
    me = __import__('simverif.props.c02', fromlist=['x'])
    extra = prepare(tier)
    histories = core.history_batch(me, seed, tier, extra)      # first: this process has executed no run yet
    core.determinism_selftest(me, seed, tier, extra, count=60)
    n_sweep = len(sweep_list())
    sweep = core.run_batch(me, seed, tier, n_sweep, 400.0, {'phase': 'sweep'}, chunk=8)
    fields = core.run_batch(me, seed, tier, len(field_list()), 400.0, {'phase': 'fields'}, chunk=4)
    names = core.run_batch(me, seed, tier, len(name_list()), 400.0, {'phase': 'names'}, chunk=2)
    bigint = core.run_batch(me, seed, tier, len(field_list()), 600.0, {'phase': 'bigint'}, chunk=4)
    pairs = core.run_batch(me, seed, tier, len(pair_list()), 600.0, {'phase': 'pairs'}, chunk=4)
    double = core.run_batch(me, seed, tier, len(double_list()), 900.0, {'phase': 'double'}, chunk=4)
    consts = core.run_batch(me, seed, tier, len(field_list()) if wirefault.byte_constants() else 0, 600.0,
                            {'phase': 'consts'}, chunk=8)
    n_runs, wall = BUDGET[tier]
    explore = core.run_batch(me, seed, tier, n_runs, wall, extra)
    batch = core.merge_batches([sweep, fields, names, bigint, pairs, double, consts, explore, histories])
    coverage = core.coverage_from_batch(
        batch, RULE, fault_kinds=wire.FAULT_KINDS,
        probes=('corrupted_input_accepted', 'second_layer_parse', 'faulted_item_accepted_inside_container'),
        components={
            'real': ['parse_immutable / parse_exact_size / parse_mutable of every corpus class',
                     'TlsSubprotocolMessageParser / second-layer parsers', 'compose() (sender)',
                     'asn1crypto / cryptodatahub / dateutil / idna codecs as imported by the library'],
            'simulated': ['transport faults on datagrams and record streams', 'reader loop forwarding accepted records'],
            'stubbed': [],
        },
        extra={
            'exhaustive': False,
            'enumerated_fault_set': {
                'description': 'every truncation and every single-byte overwrite with %s (text seeds also with %r) at every '
                               'offset of every accepted corpus seed <= %d bytes' % (
                                   list(SWEEP_VALUES), bytes(TEXT_SWEEP_VALUES).decode('ascii'), SWEEP_MAX_LEN),
                'seeds_swept': sweep.runs, 'seeds_total': n_sweep, 'faulted_inputs': sweep.stats.get('sweep.cases', 0),
                'complete': sweep.runs == n_sweep and not sweep.truncated,
            },
            'enumerated_field_fault_set': {
                'description': 'every offset of every accepted binary corpus seed <= %d bytes overwritten with %s' % (
                    FIELD_MAX_LEN, {k: ['0x%x' % v for v in vs] for k, vs in FIELD_VALUES.items()}),
                'seeds_swept': fields.runs, 'seeds_total': len(field_list()),
                'faulted_inputs': fields.stats.get('sweep.cases', 0),
                'complete': fields.runs == len(field_list()) and not fields.truncated,
            },
            'exploration_runs': explore.runs,
            'classes_in_corpus': len(corpus.class_paths()),
        })
    assumptions = [
        'exceptions raised by dependencies through a library call count as the library\'s (that is what a caller sees)',
        'the corpus is static: classes the repo\'s tests never parse are reached only through enclosing messages',
        'phase A is complete for its finite fault set; phase B is sampling',
    ]
    return core.report_and_exit(me, batch, seed, tier, coverage, assumptions, LEVEL, began)
