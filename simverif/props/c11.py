# -*- coding: utf-8 -*-
"""C11 - integer, flag, mpint and timestamp primitives are exact and never truncate.

envsim: the simulated dimension is the machine's time-zone configuration (TZ + tzset): every
tzdata zone and POSIX TZ strings, instants biased to +-2h around the zone's DST transitions and
historical offset changes.  The time-zone-free clauses (integers, flags, mpints) are a plain
differential oracle against int.to_bytes / int.from_bytes and are labelled so in evidence."""

import datetime
import os
import sys
import time
import zoneinfo

from simverif import core, corpus

PROPERTY = 'C11'
LEVEL = 'exploration'

POSIX_ZONES = (
    'UTC0', 'XXX-5:30', 'XXX+3:30', 'XXX-5:45', 'XXX-12:45', 'XXX+9:30', 'XXX-14', 'XXX+12',
    'EST5EDT,M3.2.0,M11.1.0', 'CET-1CEST,M3.5.0,M10.5.0/3', 'AEST-10AEDT,M10.1.0,M4.1.0/3',
    'LHST-10:30LHDT-11,M10.1.0,M4.1.0', 'NZST-12NZDT,M9.5.0,M4.1.0/3', 'XXX+4:30YYY+3:30,J60/0,J300/0',
    'IST-1GMT0,M10.5.0,M3.5.0/1', '<-03>3<-02>,M3.5.0/-2,M10.5.0/-1',
)

RULE = (
    'tz: one evaluation = one time-zone configuration (one of the tzdata zones or a POSIX TZ string, installed with '
    'TZ + tzset) and 24 timestamp cases (4/8 bytes, seconds/milliseconds, aware-UTC / naive-UTC / aware-other-offset / '
    'the forever sentinel) at instants in 1970..2106 biased to +-2h around that zone\'s offset transitions; composed '
    'bytes must equal integer arithmetic on the instant and parse back to it. tzmsg: one corpus message carrying '
    'timestamps (SSH certificate, RRSIG, SCT) re-composed under the zone. ints / flags / mpint: differential '
    'comparison with int.to_bytes / int.from_bytes (not a simulation). Signature = (kind, zone or width, forms, '
    'transition-near yes/no); non-trivial = a non-UTC zone, or an instant within 2h of a transition, or an '
    'out-of-range / boundary value.'
)

_ZONES = None
_TRANSITIONS = {}
EPOCH = datetime.datetime(1970, 1, 1, tzinfo=datetime.timezone.utc)
MAX_INSTANT = 2 ** 32 - 2


def zones():
    global _ZONES  # pylint: disable=global-statement
    if _ZONES is None:
        names = sorted(zoneinfo.available_timezones())
        names = [n for n in names if os.path.exists(os.path.join('/usr/share/zoneinfo', n))] or []
        _ZONES = names + list(POSIX_ZONES)
    return _ZONES


def transitions(zone):
    """UTC instants (seconds) at which the zone's UTC offset changes, 1970..2106 (bisection on zoneinfo)."""
    if zone in _TRANSITIONS:
        return _TRANSITIONS[zone]
    out = []
    try:
        info = zoneinfo.ZoneInfo(zone)
    except Exception:  # POSIX string: no table; use generic spring/autumn instants  # pylint: disable=broad-except
        info = None
    if info is not None:
        def offset(ts):
            return (EPOCH + datetime.timedelta(seconds=ts)).astimezone(info).utcoffset()
        step = 14 * 86400
        prev_ts, prev_off = 0, offset(0)
        ts = step
        while ts < MAX_INSTANT:
            off = offset(ts)
            if off != prev_off:
                lo, hi = prev_ts, ts
                while hi - lo > 1:
                    mid = (lo + hi) // 2
                    if offset(mid) == prev_off:
                        lo = mid
                    else:
                        hi = mid
                out.append(hi)
                prev_off = off
            prev_ts = ts
            ts += step
    _TRANSITIONS[zone] = out
    return out


def prepare(tier):  # pylint: disable=unused-argument
    zones()
    ts_message_seeds()
    return {'phase': 'tz'}


_TS_SEEDS = None


def ts_message_seeds():
    """(class path, seed index) of corpus messages that carry timestamps."""
    global _TS_SEEDS  # pylint: disable=global-statement
    if _TS_SEEDS is None:
        out = []
        wanted = ('SshHostCertificate', 'DnsRecordRrsig', 'SignedCertificateTimestamp', 'CertificateTimestamp')
        for path in corpus.class_paths():
            if any(w in path for w in wanted):
                for idx in range(len(corpus.objects(path))):
                    out.append((path, idx))
        _TS_SEEDS = out
    return _TS_SEEDS


# ---------------------------------------------------------------- generation

def _instant(rng, zone):
    trans = transitions(zone)
    roll = rng.random()
    if trans and roll < 0.6:
        base = rng.choice(trans)
        return max(0, min(MAX_INSTANT, base + rng.randrange(-7200, 7201)))
    if roll < 0.7:
        return rng.choice((0, 1, 86399, 86400, 2 ** 31 - 1, 2 ** 31, MAX_INSTANT, 951782400, 1709164800))
    return rng.randrange(0, MAX_INSTANT + 1)


def generate(rng, index, tier, extra):  # pylint: disable=too-many-return-statements,unused-argument
    phase = (extra or {}).get('phase', 'tz')
    if phase == 'zones':
        # deterministic sweep: every zone once with seeded instants
        zone = zones()[index % len(zones())]
        return _tz_doc(rng, zone, 24 if tier == 'quick' else 200)
    if phase == 'ints':
        return _ints_doc(rng, index, tier)
    roll = rng.random()
    if roll < 0.55:
        return _tz_doc(rng, rng.choice(zones()), 24)
    if roll < 0.70 and ts_message_seeds():
        path, idx = rng.choice(ts_message_seeds())
        return {'kind': 'tzmsg', 'tz': rng.choice(zones()), 'cls': path, 'seed': idx}
    if roll < 0.80:
        return {'kind': 'flags', 'seed': rng.getrandbits(48)}
    if roll < 0.92:
        return {'kind': 'mpint', 'seed': rng.getrandbits(48)}
    return _ints_doc(rng, rng.getrandbits(30), tier)


def _tz_doc(rng, zone, count):
    cases = []
    for _ in range(count):
        size = rng.choice((4, 8, 8))
        millis = rng.random() < 0.4
        form = rng.choice(('aware_utc', 'aware_utc', 'naive_utc', 'naive_utc', 'offset:330', 'offset:-210', 'offset:60',
                           'offset:845', 'none'))
        secs = _instant(rng, zone)
        if millis and size == 4:
            secs = rng.randrange(0, 2 ** 32 // 1000)     # a 4-byte millisecond field holds 49 days
        cases.append([secs, rng.randrange(1000) if millis else 0, size, millis, form])
    # instants outside 1970..2106: a 4-byte field must refuse them, an 8-byte field holds the later ones exactly
    for _ in range(3):
        secs = rng.choice((-1, -86400, -2 ** 31, 2 ** 32, 2 ** 32 + 5, 2 ** 33 + 12345, 253402300799))
        cases.append([secs, 0, rng.choice((4, 8)), False, rng.choice(('aware_utc', 'naive_utc')), 'outside'])
    return {'kind': 'tz', 'tz': zone, 'cases': cases}


def _ints_doc(rng, index, tier):  # pylint: disable=unused-argument
    size = (1, 2, 3, 4, 8)[index % 5]
    order = ('NATIVE', 'LITTLE_ENDIAN', 'BIG_ENDIAN', 'NETWORK')[(index // 5) % 4]
    top = 2 ** (8 * size)
    block = index // 20
    if size <= 2:
        start = (block * 4096) % top
        return {'kind': 'ints', 'size': size, 'order': order, 'range': [start, min(top, start + 4096)], 'extra': [top, top + 1, -1]}
    if size == 3:
        start = (block * 4096) % top
        return {'kind': 'ints', 'size': size, 'order': order, 'range': [start, min(top, start + 4096)],
                'extra': [top - 1, top, top + 1, 2 ** 32 - 1, 2 ** 32, -1]}
    values = [0, 1, top - 1, top // 2, top // 2 - 1] + [rng.randrange(top) for _ in range(400)] + \
        [1 << rng.randrange(8 * size) for _ in range(40)]
    return {'kind': 'ints', 'size': size, 'order': order, 'values': values, 'extra': [top, top + 1, top * 2, -1, -top]}


# ---------------------------------------------------------------- execution

def execute(doc):
    res = core.Result()
    kind = doc['kind']
    if kind == 'tz':
        _with_zone(doc['tz'], _exec_tz, doc, res)
    elif kind == 'tzmsg':
        _exec_tzmsg(doc, res)
    elif kind == 'ints':
        _exec_ints(doc, res)
    elif kind == 'flags':
        _exec_flags(doc, res)
    elif kind == 'mpint':
        _exec_mpint(doc, res)
    else:
        raise core.HarnessError('unknown schedule kind %r' % kind)
    return res


def _set_zone(zone):
    os.environ['TZ'] = zone
    time.tzset()


def _with_zone(zone, func, *args):
    old = os.environ.get('TZ')
    _set_zone(zone)
    try:
        return func(*args)
    finally:
        if old is None:
            os.environ.pop('TZ', None)
        else:
            os.environ['TZ'] = old
        time.tzset()


def _make_value(secs, millis, form):
    aware = EPOCH + datetime.timedelta(seconds=secs, milliseconds=millis)
    if form == 'aware_utc':
        import dateutil.tz
        return aware.astimezone(dateutil.tz.UTC)
    if form == 'naive_utc':
        return aware.replace(tzinfo=None)
    if form.startswith('offset:'):
        return aware.astimezone(datetime.timezone(datetime.timedelta(minutes=int(form.split(':')[1]))))
    raise core.HarnessError('unknown datetime form %r' % form)


def _exec_tz(doc, res):
    from cryptoparser.common.parse import ComposerBinary, ParserBinary
    from cryptodatahub.common.exception import InvalidValue
    zone = doc['tz']
    trans = transitions(zone)
    near = False
    forms = set()
    local_offset = -time.timezone
    for case in doc['cases']:
        secs, millis, size, use_ms, form = case[:5]
        outside = len(case) > 5
        forms.add(form)
        if form == 'none':
            value, expected_int = None, 2 ** (8 * size) - 1
        else:
            value = _make_value(secs, millis if use_ms else 0, form)
            expected_int = secs * 1000 + millis if use_ms else secs
        if any(abs(secs - t) <= 7200 for t in trans):
            near = True
            res.stats['probe.instant_within_2h_of_offset_transition'] += 1
        composer = ComposerBinary()
        try:
            composer.compose_timestamp(value, milliseconds=use_ms, item_size=size)
            composed = bytes(composer.composed_bytes)
            status = 'ok'
        except InvalidValue:
            composed, status = None, 'InvalidValue'
        except (core.RunTimeout, KeyboardInterrupt, SystemExit):
            raise
        except BaseException as exc:  # pylint: disable=broad-except
            composed, status = None, type(exc).__name__
        res.event('tz', size, use_ms, form, status, composed.hex() if composed else None)
        res.stats['timestamps.composed'] += 1
        fits = 0 <= expected_int < 2 ** (8 * size)
        clause = 'forever-sentinel' if form == 'none' else form.split(':')[0]
        if outside:
            res.stats['fault.out_of_range_value'] += 1
        if not fits:
            if status == 'ok':
                res.violation((PROPERTY, 'timestamp-truncated', size, use_ms), 'a value that does not fit is rejected',
                              '%d in %d bytes gave %s' % (expected_int, size, composed.hex()))
            continue
        if status != 'ok':
            res.violation((PROPERTY, 'timestamp-compose-failed', clause, status), 'composing a representable instant succeeds',
                          'TZ=%s instant %d.%03d (%s, %d bytes, ms=%s) raised %s' % (zone, secs, millis, form, size, use_ms, status))
            continue
        expected = expected_int.to_bytes(size, 'big')
        if composed != expected:
            delta = int.from_bytes(composed, 'big') - expected_int
            res.violation((PROPERTY, 'timestamp-depends-on-time-zone' if form != 'none' else 'forever-sentinel-wrong', clause),
                          'timestamps encode the same instant regardless of the local time zone',
                          'TZ=%s (offset now %+d s) instant %d (%s) form %s, %d bytes ms=%s: composed %s, expected %s (off by %d)' % (
                              zone, local_offset, secs, (EPOCH + datetime.timedelta(seconds=secs)).isoformat(), form, size,
                              use_ms, composed.hex(), expected.hex(), delta))
            continue
        if outside:
            continue        # (parse_timestamp masks to 32 bits by design: no parse-back for instants after 2106)
        parser = ParserBinary(composed)
        try:
            parser.parse_timestamp('t', milliseconds=use_ms, item_size=size)
            back = parser['t']
        except (core.RunTimeout, KeyboardInterrupt, SystemExit):
            raise
        except BaseException as exc:  # pylint: disable=broad-except
            res.violation((PROPERTY, 'timestamp-parse-failed', clause, type(exc).__name__), 'parse after compose is the identity',
                          'TZ=%s bytes %s' % (zone, composed.hex()))
            continue
        if form == 'none':
            if back is not None:
                res.violation((PROPERTY, 'forever-sentinel-wrong', 'parse'), 'all-ones parses to the forever sentinel', repr(back))
            continue
        want = EPOCH + datetime.timedelta(seconds=secs, milliseconds=millis if use_ms else 0)
        if expected_int == 2 ** (8 * size) - 1:
            continue    # the all-ones instant is the sentinel by definition
        if back is None or back.tzinfo is None or back != want or back.utcoffset() != datetime.timedelta(0):
            res.violation((PROPERTY, 'timestamp-parse-differs', clause), 'parse after compose is the identity (an aware UTC instant)',
                          'TZ=%s bytes %s parsed to %r, expected %s' % (zone, composed.hex(), back, want.isoformat()))
    res.sched_sig = ('tz', zone, tuple(sorted(forms)), near)
    res.nontrivial = zone not in ('UTC', 'UTC0', 'Etc/UTC') or near
    res.stats['fault.time_zone_installed'] += 1
    res.stats['runs.tz'] += 1


def _default_clock_under(zone, res):
    """A hello random built without an explicit time takes the current time: composed under the installed zone, its
    4-octet timestamp is the current epoch second (the wall clock is read here only for a +-5 s comparison; no
    clock value enters the event log)."""
    def run():
        from cryptoparser.tls.subprotocol import TlsHandshakeHelloRandom
        before = int(time.time())
        composed = bytes(TlsHandshakeHelloRandom().compose())
        return before, int.from_bytes(composed[:4], 'big'), int(time.time())
    try:
        before, stamp, after = _with_zone(zone, run)
    except (core.RunTimeout, KeyboardInterrupt, SystemExit):
        raise
    except BaseException:  # the class cannot be built without arguments on this tree  # pylint: disable=broad-except
        return
    res.stats['probe.default_clock_value_composed_under_zone'] += 1
    if not before - 5 <= stamp <= after + 5:
        res.violation((PROPERTY, 'default-time-depends-on-time-zone', 'TlsHandshakeHelloRandom'),
                      'timestamps encode the same instant regardless of the local time zone',
                      'TZ=%s: a hello random built without an explicit time composes a timestamp %d s away from the '
                      'current instant' % (zone, stamp - before))


def _exec_tzmsg(doc, res):
    seeds = corpus.objects(doc['cls'])
    if not seeds:
        res.sched_sig = ('tzmsg', doc['cls'], 'no-seed')
        return
    raw, _ = seeds[doc['seed'] % len(seeds)]
    cls = corpus.resolve(doc['cls'])
    name = cls.__name__

    def compose_under(zone):
        def run():
            obj = cls.parse_immutable(raw)[0]
            return bytes(obj.compose())
        return _with_zone(zone, run)

    try:
        reference = compose_under('UTC')
    except Exception as exc:  # not composable standalone  # pylint: disable=broad-except
        res.note(name, 'not-composable', type(exc).__name__)
        res.sched_sig = ('tzmsg', name, 'not-composable')
        return
    try:
        other = compose_under(doc['tz'])
    except (core.RunTimeout, KeyboardInterrupt, SystemExit):
        raise
    except BaseException as exc:  # pylint: disable=broad-except
        res.violation((PROPERTY, 'message-compose-depends-on-time-zone', name, type(exc).__name__),
                      'timestamps encode the same instant regardless of the local time zone',
                      'TZ=%s: compose raised %s although it succeeds under UTC' % (doc['tz'], type(exc).__name__))
        other = reference
    res.event('tzmsg', name, doc['tz'], reference == other)
    res.stats['fault.time_zone_installed'] += 1
    _default_clock_under(doc['tz'], res)
    if other != reference:
        pos = next((i for i, (a, b) in enumerate(zip(reference, other)) if a != b), 0)
        res.violation((PROPERTY, 'message-compose-depends-on-time-zone', name),
                      'timestamps encode the same instant regardless of the local time zone',
                      'TZ=%s: composed bytes differ from the UTC composition at offset %d: %s vs %s' % (
                          doc['tz'], pos, other[pos:pos + 8].hex(), reference[pos:pos + 8].hex()))
    res.sched_sig = ('tzmsg', name, doc['tz'])
    res.nontrivial = doc['tz'] not in ('UTC', 'UTC0', 'Etc/UTC')
    res.stats['runs.tzmsg'] += 1


def _guard(res, sig, clause, func, *args, **kwargs):
    """Call into the library; an exception there is a violation of this property, never a harness crash."""
    try:
        return True, func(*args, **kwargs)
    except (core.RunTimeout, KeyboardInterrupt, SystemExit, core.HarnessError):
        raise
    except BaseException as exc:  # pylint: disable=broad-except
        res.violation(tuple(sig) + (type(exc).__name__, ), clause, '%s: %s' % (type(exc).__name__, str(exc)[:200]))
        return False, None


def _ref_order(order):
    if order in ('BIG_ENDIAN', 'NETWORK'):
        return 'big'
    if order == 'LITTLE_ENDIAN':
        return 'little'
    return sys.byteorder


def _exec_ints(doc, res):
    from cryptoparser.common.parse import ComposerBinary, ParserBinary, ByteOrder
    from cryptodatahub.common.exception import InvalidValue
    size, order = doc['size'], doc['order']
    byte_order = ByteOrder[order]
    ref = _ref_order(order)
    if 'range' in doc:
        values = range(doc['range'][0], doc['range'][1])
    else:
        values = doc['values']
    checked = 0
    for value in values:
        composer = ComposerBinary(byte_order=byte_order)
        try:
            composer.compose_numeric(value, size)
            composed = bytes(composer.composed_bytes)
        except (core.RunTimeout, KeyboardInterrupt, SystemExit):
            raise
        except BaseException as exc:  # pylint: disable=broad-except
            res.violation((PROPERTY, 'integer-compose-failed', size, order, type(exc).__name__),
                          'a value that fits the width is composed', 'value %d' % value)
            break
        expected = value.to_bytes(size, ref)
        if composed != expected:
            res.violation((PROPERTY, 'integer-compose-differs', size, order), 'composed exactly as the byte order dictates',
                          'value %d: %s, expected %s' % (value, composed.hex(), expected.hex()))
            break
        parser = ParserBinary(expected, byte_order=byte_order)
        ok, _ = _guard(res, (PROPERTY, 'integer-parse-failed', size, order), 'a value of the width is parsed',
                       parser.parse_numeric, 'x', size)
        if not ok:
            break
        if parser['x'] != value or parser.parsed_length != size:
            res.violation((PROPERTY, 'integer-parse-differs', size, order), 'parsed exactly as the byte order dictates',
                          'bytes %s parsed to %r (consumed %d)' % (expected.hex(), parser['x'], parser.parsed_length))
            break
        checked += 1
    for value in doc.get('extra', ()):
        composer = ComposerBinary(byte_order=byte_order)
        try:
            composer.compose_numeric(value, size)
            outcome = 'ok:' + bytes(composer.composed_bytes).hex()
        except InvalidValue:
            outcome = 'InvalidValue'
        except (core.RunTimeout, KeyboardInterrupt, SystemExit):
            raise
        except BaseException as exc:  # pylint: disable=broad-except
            outcome = type(exc).__name__
        res.stats['fault.out_of_range_value'] += 1
        fits = 0 <= value < 2 ** (8 * size)
        if not fits and outcome != 'InvalidValue':
            res.violation((PROPERTY, 'overflow-not-rejected', size, order, outcome.split(':')[0]),
                          'a value that does not fit the width is rejected with an invalid-value error rather than truncated',
                          'compose_numeric(%d, %d) -> %s' % (value, size, outcome))
        if fits and not outcome.startswith('ok'):
            res.violation((PROPERTY, 'integer-compose-failed', size, order, outcome), 'a value that fits is composed', str(value))
    # arrays share the code path: one array of boundary values
    composer = ComposerBinary(byte_order=byte_order)
    arr = [0, 1, 2 ** (8 * size) - 1, 2 ** (8 * size - 1)]
    ok, _ = _guard(res, (PROPERTY, 'integer-array-failed', size, order), 'arrays of values that fit are composed',
                   composer.compose_numeric_array, arr, size)
    if ok and bytes(composer.composed_bytes) != b''.join(v.to_bytes(size, ref) for v in arr):
        res.violation((PROPERTY, 'integer-array-differs', size, order), 'composed exactly as the byte order dictates', '')
    # ... and an array is rejected as a whole when any one of its items does not fit, wherever the item stands
    limit = 2 ** (8 * size)
    for position, bad in ((0, limit), (1, limit + 5), (2, 2 ** (8 * size + 8) - 1), (0, -1), (3, limit)):
        items = [1, 2, 3, 4]
        items[position] = bad
        composer = ComposerBinary(byte_order=byte_order)
        try:
            composer.compose_numeric_array(items, size)
            outcome = 'ok:' + bytes(composer.composed_bytes).hex()
        except InvalidValue:
            outcome = 'InvalidValue'
        except (core.RunTimeout, KeyboardInterrupt, SystemExit):
            raise
        except BaseException as exc:  # pylint: disable=broad-except
            outcome = type(exc).__name__
        res.stats['fault.out_of_range_value'] += 1
        if outcome == 'InvalidValue' and bytes(composer.composed_bytes):
            res.violation((PROPERTY, 'rejected-array-left-output', size, order),
                          'a value that does not fit the width is rejected with an invalid-value error rather than truncated',
                          'compose_numeric_array(%r, %d) raised InvalidValue and left %s in the composer' % (
                              items, size, bytes(composer.composed_bytes).hex()))
            break
        if outcome != 'InvalidValue':
            res.violation((PROPERTY, 'overflow-not-rejected', size, order, 'array', outcome.split(':')[0]),
                          'a value that does not fit the width is rejected with an invalid-value error rather than truncated',
                          'compose_numeric_array(%r, %d) -> %s' % (items, size, outcome))
            break
    # the byte order is an attribute of the parser / composer: assigned after construction it rules what follows
    other = ByteOrder.LITTLE_ENDIAN if ref == 'big' else ByteOrder.BIG_ENDIAN
    sample = [0x010203040506070809 % limit, limit - 2, 1]
    for value in sample:
        composer = ComposerBinary(byte_order=other)
        parser = ParserBinary(value.to_bytes(size, ref) * 2, byte_order=other)
        try:
            composer.byte_order = byte_order
            parser.byte_order = byte_order
        except Exception:  # the attribute cannot be assigned: nothing to check  # pylint: disable=broad-except
            break
        ok, _ = _guard(res, (PROPERTY, 'integer-compose-failed', size, order, 'reassigned'), 'a value that fits is composed',
                       composer.compose_numeric, value, size)
        ok2, _ = _guard(res, (PROPERTY, 'integer-parse-failed', size, order, 'reassigned'), 'a value of the width is parsed',
                        parser.parse_numeric_array, 'x', 2, size, int)
        if not (ok and ok2):
            break
        res.stats['probe.byte_order_assigned_after_construction'] += 1
        if bytes(composer.composed_bytes) != value.to_bytes(size, ref) or list(parser['x']) != [value, value]:
            res.violation((PROPERTY, 'byte-order-assigned-later-ignored', size, order),
                          'composed and parsed exactly as the chosen byte order dictates',
                          'byte_order set to %s after construction with %s: %d composed as %s (expected %s), %s parsed as %r' % (
                              order, other.name, value, bytes(composer.composed_bytes).hex(), value.to_bytes(size, ref).hex(),
                              (value.to_bytes(size, ref) * 2).hex(), list(parser['x'])))
            break
    res.event('ints', size, order, checked)
    res.sim_events += checked
    res.stats['ints.values_checked'] += checked
    res.stats['runs.ints(differential, not simulation)'] += 1
    res.sched_sig = ('ints', size, order, doc.get('range', ['sample'])[0])
    res.nontrivial = True


def _flag_enums():
    from cryptoparser.tls.mysql import MySQLCapability, MySQLStatusFlag
    from cryptoparser.dnsrec.record import DnsSecFlag
    from cryptoparser.tls.rdp import RDPProtocol
    return [(MySQLCapability, 4, 0), (MySQLCapability, 2, 0), (MySQLCapability, 2, 16), (MySQLStatusFlag, 2, 0),
            (DnsSecFlag, 2, 0), (RDPProtocol, 4, 0)]


def _exec_flags(doc, res):
    import random
    from cryptoparser.common.parse import ComposerBinary, ParserBinary, ByteOrder
    rng = random.Random(doc['seed'])
    for _ in range(40):
        flag_class, size, shift = rng.choice(_flag_enums())
        order = rng.choice(list(ByteOrder))
        members = [m for m in flag_class if int(m)]
        usable = [m for m in members if (int(m) >> shift) and (int(m) >> shift) < 2 ** (8 * size)]
        if not usable:
            continue
        chosen = set(rng.sample(usable, rng.randrange(0, len(usable) + 1)))
        if chosen and rng.random() < 0.3:
            # the same flags given as a list with a repeated member: the OR of the members is unchanged
            chosen = sorted(chosen) + [rng.choice(sorted(chosen))]
            rng.shuffle(chosen)
        expected_int = 0
        for member in chosen:
            expected_int |= int(member) >> shift
        composer = ComposerBinary(byte_order=order)
        ok, _ = _guard(res, (PROPERTY, 'flags-compose-failed', flag_class.__name__, shift), 'flag sets map to the OR of their members',
                       composer.compose_numeric_flags, chosen, size, shift_right=shift)
        if not ok:
            break
        composed = bytes(composer.composed_bytes)
        expected = expected_int.to_bytes(size, _ref_order(order.name))
        if composed != expected:
            res.violation((PROPERTY, 'flags-compose-differs', flag_class.__name__, shift),
                          'flag sets map to the OR of their members', '%s -> %s, expected %s' % (
                              [m.name for m in chosen], composed.hex(), expected.hex()))
            break
        parser = ParserBinary(expected, byte_order=order)
        ok, _ = _guard(res, (PROPERTY, 'flags-parse-failed', flag_class.__name__, shift), 'and back',
                       parser.parse_numeric_flags, 'f', size, flag_class, shift_left=shift)
        if not ok:
            break
        want = {m for m in members if int(m) & (expected_int << shift)}
        if set(parser['f']) != want:
            res.violation((PROPERTY, 'flags-parse-differs', flag_class.__name__, shift), 'and back',
                          '%s parsed to %s, expected %s' % (expected.hex(), sorted(m.name for m in parser['f']),
                                                            sorted(m.name for m in want)))
            break
        res.stats['flags.sets_checked'] += 1
        # ... for every flag word, whatever a caller did with the collection an earlier parse returned
        parsed = parser['f']
        if isinstance(parsed, (set, list)):
            try:
                if isinstance(parsed, set):
                    (parsed.clear if rng.random() < 0.5 or not usable else lambda: parsed.symmetric_difference_update(usable[:2]))()
                else:
                    del parsed[:]
            except Exception:  # an immutable result cannot be edited  # pylint: disable=broad-except
                pass
            again = ParserBinary(expected, byte_order=order)
            ok, _ = _guard(res, (PROPERTY, 'flags-parse-failed', flag_class.__name__, shift), 'and back',
                           again.parse_numeric_flags, 'f', size, flag_class, shift_left=shift)
            if not ok:
                break
            res.stats['probe.flag_word_parsed_again_after_editing_the_first_result'] += 1
            if set(again['f']) != want:
                res.violation((PROPERTY, 'flags-parse-depends-on-earlier-result', flag_class.__name__, shift), 'and back',
                              '%s parsed to %s after the set returned by an earlier parse of the same word was edited, '
                              'expected %s' % (expected.hex(), sorted(m.name for m in again['f']),
                                               sorted(m.name for m in want)))
                break
        # a member that does not fit the field (after the shift) is rejected, never silently dropped
        too_big = [m for m in members if (int(m) >> shift) >= 2 ** (8 * size)]
        if too_big:
            composer = ComposerBinary(byte_order=order)
            oversized = set(rng.sample(usable, min(len(usable), 2))) | {rng.choice(too_big)}
            try:
                composer.compose_numeric_flags(oversized, size, shift_right=shift)
                outcome = 'ok:' + bytes(composer.composed_bytes).hex()
            except (core.RunTimeout, KeyboardInterrupt, SystemExit):
                raise
            except BaseException as exc:  # pylint: disable=broad-except
                outcome = type(exc).__name__
            res.stats['fault.out_of_range_value'] += 1
            if outcome != 'InvalidValue':
                res.violation((PROPERTY, 'flags-overflow-not-rejected', flag_class.__name__, shift, outcome.split(':')[0]),
                              'a value that does not fit the width is rejected with an invalid-value error rather than truncated',
                              '%s into %d bytes (shift %d) -> %s' % (sorted(m.name for m in oversized), size, shift, outcome))
                break
    res.event('flags', doc['seed'])
    res.sched_sig = ('flags', doc['seed'] % 64)
    res.nontrivial = True
    res.stats['runs.flags(differential, not simulation)'] += 1


def _ssh_mpint_reference(value):
    """RFC 4251 section 5: two's complement, minimal, uint32 length prefix."""
    if value == 0:
        body = b''
    elif value > 0:
        body = value.to_bytes(value.bit_length() // 8 + 1, 'big', signed=True)
    else:
        body = value.to_bytes((value + 1).bit_length() // 8 + 1, 'big', signed=True)
    return len(body).to_bytes(4, 'big') + body


def _compose_one(value):
    from cryptoparser.common.parse import ComposerBinary
    composer = ComposerBinary()
    composer.compose_ssh_mpint(value)
    return bytes(composer.composed_bytes)


def _exec_mpint(doc, res):
    import random
    from cryptoparser.common.parse import ComposerBinary, ParserBinary
    rng = random.Random(doc['seed'])
    values = []
    for _ in range(30):
        bits = rng.choice((0, 1, 7, 8, 9, 31, 32, 33, 63, 64, 65, 255, 256, 257, 1023, 1024, 2047, 2048, 4095, 4096,
                           8 * rng.randrange(1, 512) + rng.choice((-1, 0, 1))))
        magnitude = rng.choice(((1 << bits) - 1 if bits else 0, 1 << max(0, bits - 1), rng.getrandbits(max(1, bits)), (1 << bits)))
        values.append(magnitude if rng.random() < 0.6 else -magnitude + rng.choice((0, 1, 2)))
    for value in values:
        composer = ComposerBinary()
        try:
            composer.compose_ssh_mpint(value)
            composed = bytes(composer.composed_bytes)
            parser = ParserBinary(composed + b'\xaa\x55')
            parser.parse_ssh_mpint('m')
            back, used = parser['m'], parser.parsed_length
        except (core.RunTimeout, KeyboardInterrupt, SystemExit):
            raise
        except BaseException as exc:  # pylint: disable=broad-except
            res.violation((PROPERTY, 'ssh-mpint-failed', 'neg' if value < 0 else 'pos', type(exc).__name__),
                          'SSH mpints round-trip for every integer', 'value with %d bits' % value.bit_length())
            break
        res.stats['mpint.ssh_checked'] += 1
        if back != value or used != len(composed):
            res.violation((PROPERTY, 'ssh-mpint-round-trip', 'neg' if value < 0 else 'pos'), 'SSH mpints round-trip for every integer',
                          '%s%d-bit value composed to %s... and parsed back differently (consumed %d of %d)' % (
                              '-' if value < 0 else '', value.bit_length(), composed[:12].hex(), used, len(composed)))
            break
        if value >= 0 and composed != _ssh_mpint_reference(value):
            res.violation((PROPERTY, 'ssh-mpint-not-minimal',), 'SSH mpints are minimal for non-negative integers',
                          '%d-bit value: %s... expected %s...' % (value.bit_length(), composed[:12].hex(), _ssh_mpint_reference(value)[:12].hex()))
            break
        if value >= 0:
            length = max(1, (value.bit_length() + 7) // 8) + rng.choice((0, 0, 1, 5))
            composer = ComposerBinary()
            ok, _ = _guard(res, (PROPERTY, 'fixed-mpint-failed'), 'fixed-length mpints are composed', composer.compose_mpint, value, length)
            if not ok:
                break
            fixed = bytes(composer.composed_bytes)
            if fixed != value.to_bytes(length, 'big'):
                res.violation((PROPERTY, 'fixed-mpint-differs',), 'fixed-length mpints are exact big-endian integers',
                              '%d-bit value in %d bytes: %s...' % (value.bit_length(), length, fixed[:12].hex()))
                break
            parser = ParserBinary(fixed + b'\x01')
            ok, _ = _guard(res, (PROPERTY, 'fixed-mpint-failed', 'parse'), 'fixed-length mpints round-trip', parser.parse_mpint, 'm', length)
            if not ok:
                break
            if parser['m'] != value or parser.parsed_length != length:
                res.violation((PROPERTY, 'fixed-mpint-round-trip',), 'fixed-length mpints round-trip', '%d bits, %d bytes' % (value.bit_length(), length))
                break
            res.stats['mpint.fixed_checked'] += 1
            # the same under the other byte orders a composer / parser can be created with (the library's own tests
            # pin least-significant-octet-first output for the little-endian composer)
            from cryptoparser.common.parse import ByteOrder
            order = rng.choice(list(ByteOrder))
            ref = _ref_order(order.name)
            composer = ComposerBinary(byte_order=order)
            ok, _ = _guard(res, (PROPERTY, 'fixed-mpint-failed', order.name), 'fixed-length mpints are composed',
                           composer.compose_mpint, value, length)
            if not ok:
                break
            ordered = bytes(composer.composed_bytes)
            if ordered != value.to_bytes(length, ref):
                res.violation((PROPERTY, 'fixed-mpint-differs', ref), 'fixed-length mpints are exact integers in the chosen byte order',
                              '%s composer, %d-bit value in %d bytes: %s..., expected %s...' % (
                                  order.name, value.bit_length(), length, ordered[:12].hex(), value.to_bytes(length, ref)[:12].hex()))
                break
            parser = ParserBinary(value.to_bytes(length, ref) + b'\x01', byte_order=order)
            ok, _ = _guard(res, (PROPERTY, 'fixed-mpint-failed', 'parse', order.name), 'fixed-length mpints round-trip',
                           parser.parse_mpint, 'm', length)
            if not ok:
                break
            if parser['m'] != value or parser.parsed_length != length:
                res.violation((PROPERTY, 'fixed-mpint-round-trip', ref), 'fixed-length mpints round-trip',
                              '%s parser: %d-bit value in %d bytes (%s...) parsed back as a %d-bit value' % (
                                  order.name, value.bit_length(), length, value.to_bytes(length, ref)[:12].hex(),
                                  parser['m'].bit_length()))
                break
            res.stats['mpint.fixed_checked_in_byte_order.' + ref] += 1
            # ... and never truncate: a field too short for the value is refused with an invalid-value error
            needed = max(1, (value.bit_length() + 7) // 8)
            if needed > 1:
                short = rng.choice((needed - 1, max(1, needed - rng.choice((1, 2, 3, 4, 5, 8))), max(1, (needed - 1) // 4 * 4)))
                composer = ComposerBinary()
                try:
                    composer.compose_mpint(value, short)
                    outcome = 'ok:' + bytes(composer.composed_bytes)[:12].hex()
                except (core.RunTimeout, KeyboardInterrupt, SystemExit):
                    raise
                except BaseException as exc:  # pylint: disable=broad-except
                    outcome = type(exc).__name__
                res.stats['fault.out_of_range_value'] += 1
                if outcome != 'InvalidValue':
                    res.violation((PROPERTY, 'fixed-mpint-overflow-not-rejected', outcome.split(':')[0]),
                                  'a value that does not fit the width is rejected with an invalid-value error rather than truncated',
                                  'compose_mpint(<%d-bit value>, %d) -> %s' % (value.bit_length(), short, outcome))
                    break
    # several mpints one after another in one buffer / one parser (how keys carry them), after a prefix
    if not res.violations:
        sequence = [rng.choice(values) for _ in range(rng.randrange(2, 6))]
        prefix = bytes(rng.getrandbits(8) for _ in range(rng.choice((0, 0, 1, 4, 7))))
        composer = ComposerBinary()
        composer.compose_raw(prefix)
        ok = True
        for value in sequence:
            ok, _ = _guard(res, (PROPERTY, 'ssh-mpint-failed', 'sequence'), 'SSH mpints round-trip for every integer',
                           composer.compose_ssh_mpint, value)
            if not ok:
                break
        if ok:
            expected = prefix + b''.join(_ssh_mpint_reference(v) if v >= 0 else None or _compose_one(v) for v in sequence)
            data = bytes(composer.composed_bytes)
            if data != expected:
                res.violation((PROPERTY, 'ssh-mpint-sequence-differs',), 'composing several mpints concatenates their encodings', '')
            parser = ParserBinary(data)
            if prefix:
                parser.parse_raw('prefix', len(prefix))
            back = []
            for number in range(len(sequence)):
                ok, _ = _guard(res, (PROPERTY, 'ssh-mpint-failed', 'sequence-parse'), 'SSH mpints round-trip for every integer',
                               parser.parse_ssh_mpint, 'm%d' % number)
                if not ok:
                    break
                back.append(parser['m%d' % number])
            if ok and back != sequence:
                wrong = next(i for i, (a, b) in enumerate(zip(back, sequence)) if a != b)
                res.violation((PROPERTY, 'ssh-mpint-round-trip', 'sequence'), 'SSH mpints round-trip for every integer',
                              'mpint #%d of %d in one buffer (after a %d byte prefix): a %s%d-bit value parsed back as a %s%d-bit value' % (
                                  wrong, len(sequence), len(prefix), '-' if sequence[wrong] < 0 else '', sequence[wrong].bit_length(),
                                  '-' if back[wrong] < 0 else '', back[wrong].bit_length()))
            res.stats['mpint.sequences_checked'] += 1
    res.event('mpint', doc['seed'])
    res.sched_sig = ('mpint', doc['seed'] % 64)
    res.nontrivial = True
    res.stats['runs.mpint(differential, not simulation)'] += 1


def shrink(doc, sig, budget):
    me = __import__('simverif.props.c11', fromlist=['x'])
    doc = dict(doc)
    if doc['kind'] == 'tz':
        doc['cases'] = core.ddmin_list(doc['cases'], lambda c: bool(c) and core.has_sig(me, dict(doc, cases=c), sig), budget)
    return doc


BUDGET = {'quick': (30000, 60.0, 1), 'thorough': (600000, 700.0, 1)}


def check(tier, seed):
    began = time.time()
    me = __import__('simverif.props.c11', fromlist=['x'])
    extra = prepare(tier)
    histories = core.history_batch(me, seed, tier, extra, scale=0.5)      # first: this process has executed no run yet
    core.determinism_selftest(me, seed, tier, extra, count=40)
    n_runs, wall, _ = BUDGET[tier]
    sweep = core.run_batch(me, seed, tier, len(zones()), 300.0, {'phase': 'zones'})
    explore = core.run_batch(me, seed, tier, n_runs, wall, extra)
    batches = [sweep, explore, histories]
    exhaustive_ints = False
    if tier == 'thorough':
        # every 1-, 2- and 3-byte value in all four byte orders: 20 * (16 + 4096 blocks)
        total_blocks = 20 * 4096
        ints = core.run_batch(me, seed, tier, total_blocks, 1500.0, {'phase': 'ints'})
        batches.append(ints)
        exhaustive_ints = ints.runs == total_blocks and not ints.truncated
    else:
        ints = core.run_batch(me, seed, tier, 20 * 16, 120.0, {'phase': 'ints'})   # all 1- and 2-byte values
        batches.append(ints)
    batch = core.merge_batches(batches)
    coverage = core.coverage_from_batch(
        batch, RULE, fault_kinds=('time_zone_installed', 'out_of_range_value'),
        probes=('instant_within_2h_of_offset_transition', ),
        components={
            'real': ['ComposerBinary.compose_timestamp / ParserBinary.parse_timestamp and the messages built on them',
                     'compose_numeric / parse_numeric / flags / mpint primitives', 'libc time-zone machinery via time.tzset()'],
            'simulated': ['the machine\'s time-zone configuration: TZ environment variable + tzset(), tzdata zones and POSIX rules',
                          'choice of instants around offset transitions (found by bisecting zoneinfo)'],
            'stubbed': [],
        },
        extra={
            'zones_total': len(zones()), 'zones_swept': sweep.runs,
            'differential_not_simulation': 'runs.ints / runs.flags / runs.mpint compare against int.to_bytes / int.from_bytes; '
                                           'they are a plain oracle riding on the environment sweep, not simulation',
            'all_1_2_byte_values_checked': True,
            'all_3_byte_values_checked': exhaustive_ints,
            'limit': 'ByteOrder.NATIVE depends on the host CPU (%s endian here), which cannot be varied' % sys.byteorder,
        })
    assumptions = [
        'a naive datetime means UTC (the library\'s own convention in its tests); aware datetimes carry their instant',
        'instants 1970..2106 (seconds < 2**32): parse_timestamp masks to 32 bits by design',
        'mpint layout is judged in network byte order only (the property states byte orders for fixed-width integers)',
        'sampling for time zones x instants; complete for 1- and 2-byte integers (3-byte in thorough tier)',
    ]
    return core.report_and_exit(me, batch, seed, tier, coverage, assumptions, LEVEL, began)
