# -*- coding: utf-8 -*-
"""Reference framer: total frame length from the header of each stream framing unit,
written from the protocol specifications and independent of the library.

frame_length(channel, buf) -> int (total bytes of the first frame) or None when the header
itself is incomplete.  The value does not depend on bytes beyond the header.
"""


def _u16(buf, off):
    return (buf[off] << 8) | buf[off + 1]


def _u24(buf, off):
    return (buf[off] << 16) | (buf[off + 1] << 8) | buf[off + 2]


def _u32(buf, off):
    return (buf[off] << 24) | (buf[off + 1] << 16) | (buf[off + 2] << 8) | buf[off + 3]


def tls_record(buf):
    # RFC 5246 6.2.1: type(1) version(2) length(2) fragment
    if len(buf) < 5:
        return None
    return 5 + _u16(buf, 3)


def ssl2_record(buf):
    # SSL 2.0 spec: 2-byte header (MSB set) or 3-byte header with a padding length octet
    if len(buf) < 2:
        return None
    if buf[0] & 0x80:
        return 2 + (((buf[0] & 0x7f) << 8) | buf[1])
    if len(buf) < 3:
        return None
    return 3 + (((buf[0] & 0x3f) << 8) | buf[1])


def tls_handshake(buf):
    # RFC 5246 7.4: msg_type(1) length(3) body
    if len(buf) < 4:
        return None
    return 4 + _u24(buf, 1)


def ssh_packet(buf):
    # RFC 4253 6: uint32 packet_length, then packet_length bytes
    if len(buf) < 4:
        return None
    return 4 + _u32(buf, 0)


def ssh_banner(buf):
    # RFC 4253 4.2: identification string terminated by CR LF (a lone LF is tolerated by peers)
    idx = bytes(buf).find(b'\n')
    if idx < 0:
        return None
    return idx + 1


def mysql_packet(buf):
    # MySQL client/server protocol: payload_length(3, little endian) sequence_id(1) payload
    if len(buf) < 4:
        return None
    return 4 + (buf[0] | (buf[1] << 8) | (buf[2] << 16))


def tpkt(buf):
    # RFC 1006 6: vrsn(1) reserved(1) packet length(2), the length includes the header
    if len(buf) < 4:
        return None
    return _u16(buf, 2)


def openvpn_tcp(buf):
    # OpenVPN over TCP: uint16 packet length prefix
    if len(buf) < 2:
        return None
    return 2 + _u16(buf, 0)


def ldap_message(buf):
    # X.690 TLV: identifier octet (low tag number form), definite length
    if len(buf) < 2:
        return None
    if buf[0] & 0x1f == 0x1f:
        return None  # high tag numbers never appear at the top of an LDAPMessage
    first = buf[1]
    if first < 0x80:
        return 2 + first
    count = first & 0x7f
    if count == 0 or len(buf) < 2 + count:
        return None
    value = 0
    for byte in buf[2:2 + count]:
        value = (value << 8) | byte
    return 2 + count + value


def pg_sslrequest(buf):
    # PostgreSQL frontend/backend protocol: Int32(8) Int32(80877103)
    if len(buf) < 4:
        return None
    return _u32(buf, 0)


def pg_sync(buf):
    return 1 if len(buf) >= 1 else None


FRAMERS = {
    'tls_record': tls_record,
    'ssl2_record': ssl2_record,
    'tls_handshake': tls_handshake,
    'ssh_packet': ssh_packet,
    'ssh_banner': ssh_banner,
    'mysql': mysql_packet,
    'tpkt': tpkt,
    'openvpn_tcp': openvpn_tcp,
    'ldap': ldap_message,
    'pg_sslrequest': pg_sslrequest,
    'pg_sync': pg_sync,
}

# offsets of the length field(s) inside the header (used to aim cuts and faults)
LENGTH_FIELD = {
    'tls_record': (3, 2),
    'ssl2_record': (0, 2),
    'tls_handshake': (1, 3),
    'ssh_packet': (0, 4),
    'mysql': (0, 3),
    'tpkt': (2, 2),
    'openvpn_tcp': (0, 2),
    'ldap': (1, 1),
    'pg_sslrequest': (0, 4),
}

HEADER_SIZE = {
    'tls_record': 5,
    'ssl2_record': 2,
    'tls_handshake': 4,
    'ssh_packet': 5,
    'ssh_banner': 0,
    'mysql': 4,
    'tpkt': 4,
    'openvpn_tcp': 2,
    'ldap': 2,
    'pg_sslrequest': 8,
    'pg_sync': 1,
}


def frame_length(framer, buf):
    return FRAMERS[framer](buf)
