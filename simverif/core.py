# -*- coding: utf-8 -*-
"""Core of the deterministic simulator: seed discipline, run loop, parallel batches,
violation signatures, known findings, minimisation, replay files, evidence.

One integer (VERIF_SEED) decides every batch; run i of property P uses
run_seed = H(VERIF_SEED, P, i).  A run first materialises its schedule as a JSON document
(`generate`), then executes the document (`execute`).  Replay executes a document without
any PRNG.
"""

import collections
import hashlib
import importlib
import json
import multiprocessing
import os
import pkgutil
import random
import signal
import subprocess
import sys
import time
import traceback

from concurrent.futures import ProcessPoolExecutor

VERIF_DIR = os.path.dirname(os.path.dirname(os.path.abspath(__file__)))
REPO = os.path.realpath(os.environ.get('VERIF_REPO', '/repo'))
REPO_PKG_PREFIX = os.path.join(REPO, 'cryptoparser') + os.sep

EXIT_OK = 0
EXIT_VIOLATION = 1
EXIT_HARNESS = 2


class HarnessError(Exception):
    """Something is wrong with the machinery itself (never reported as a VIOLATION)."""


class RunTimeout(BaseException):
    """Raised by the per-run wall watchdog; BaseException so library code cannot swallow it."""


# --------------------------------------------------------------------------------------
# repository import (rebuild from the working tree, fixed import order)
# --------------------------------------------------------------------------------------

_REPO_READY = False


def setup_repo():
    """Import cryptoparser from VERIF_REPO, every module, in sorted order."""
    global _REPO_READY  # pylint: disable=global-statement
    if _REPO_READY:
        return
    import warnings
    warnings.simplefilter('ignore')
    # import-time defaults (session ids, hello randoms) draw from the global PRNG
    random.seed(0)
    if sys.path[0] != REPO:
        sys.path.insert(0, REPO)
    # a stale sys.modules entry would defeat "rebuild from the working tree"
    for name in list(sys.modules):
        if name == 'cryptoparser' or name.startswith('cryptoparser.'):
            raise HarnessError('cryptoparser imported before setup_repo()')
    import cryptoparser
    pkg_file = os.path.realpath(cryptoparser.__file__)
    if not pkg_file.startswith(REPO + os.sep):
        raise HarnessError('cryptoparser imported from %s, expected under %s' % (pkg_file, REPO))
    names = sorted(
        m.name for m in pkgutil.walk_packages(cryptoparser.__path__, 'cryptoparser.')
    )
    for name in names:
        if name.endswith('__setup__'):
            continue
        importlib.import_module(name)
    _freeze_dependency_clock()
    _REPO_READY = True


SIM_NOW = (2024, 1, 15, 12, 0, 0)


def _freeze_dependency_clock():
    """cryptodatahub's PublicKeySigned.validity_remaining_time reads datetime.now(); give it
    the simulated instant so serialisations never straddle a real midnight."""
    import datetime as _dt
    try:
        import cryptodatahub.common.key as key_mod
    except ImportError:  # pragma: no cover
        return
    real = getattr(key_mod, 'datetime', None)
    if real is None or not hasattr(real, 'datetime'):
        return

    class _FrozenDateTime(real.datetime):
        @classmethod
        def now(cls, tz=None):
            value = cls(*SIM_NOW)
            if tz is not None:
                value = value.replace(tzinfo=_dt.timezone.utc).astimezone(tz)
            return value

        @classmethod
        def utcnow(cls):
            return cls(*SIM_NOW)

    class _Shim(object):
        def __getattr__(self, name):
            return getattr(real, name)

    shim = _Shim()
    shim.datetime = _FrozenDateTime
    key_mod.datetime = shim


def get_class(path):
    mod, _, qual = path.rpartition('.')
    obj = importlib.import_module(mod)
    for part in qual.split('.'):
        obj = getattr(obj, part)
    return obj


def class_path(cls):
    return cls.__module__ + '.' + cls.__qualname__


# --------------------------------------------------------------------------------------
# seeds
# --------------------------------------------------------------------------------------

def batch_seed():
    try:
        return int(os.environ.get('VERIF_SEED', '0'))
    except ValueError:
        return int(hashlib.sha256(os.environ['VERIF_SEED'].encode()).hexdigest()[:12], 16)


def run_seed(seed, prop, index):
    digest = hashlib.sha256(('%d:%s:%d' % (seed, prop, index)).encode()).digest()
    return int.from_bytes(digest[:8], 'big')


def jobs():
    try:
        return max(1, int(os.environ.get('VERIF_JOBS', '0'))) if os.environ.get('VERIF_JOBS') else (
            os.cpu_count() or 1)
    except ValueError:
        return os.cpu_count() or 1


# --------------------------------------------------------------------------------------
# run results
# --------------------------------------------------------------------------------------

class Result(object):
    """What one executed schedule produced."""
    __slots__ = ('violations', 'log', 'stats', 'sched_sig', 'nontrivial', 'sim_events', 'steps', 'fixed_digest')

    def __init__(self):
        self.violations = []        # list of dict(sig=str, clause=str, detail=str)
        self.log = hashlib.sha256()  # canonical event log, hashed incrementally
        self.stats = collections.Counter()
        self.sched_sig = None       # hashable, JSON-able; the distinct-schedule measure
        self.nontrivial = False
        self.sim_events = 0         # delivery events / operations executed ("simulated time")
        self.steps = 0              # library line-steps under the step clock (0 if clock off)
        self.fixed_digest = None    # set when the run was executed in a forked child

    def event(self, *fields):
        self.sim_events += 1
        self.log.update(repr(fields).encode('utf-8', 'backslashreplace'))
        self.log.update(b'\n')

    def note(self, *fields):
        """Log without counting a simulated event."""
        self.log.update(repr(fields).encode('utf-8', 'backslashreplace'))
        self.log.update(b'\n')

    def violation(self, sig, clause, detail):
        sig = '|'.join(str(part) for part in sig) if not isinstance(sig, str) else sig
        self.violations.append({'sig': sig, 'clause': clause, 'detail': str(detail)[:2000]})
        self.note('VIOLATION', sig)

    def digest(self):
        return self.fixed_digest or self.log.hexdigest()

    def to_wire(self):
        return {'violations': self.violations, 'digest': self.digest(), 'stats': dict(self.stats),
                'sched_sig': self.sched_sig, 'nontrivial': self.nontrivial, 'sim_events': self.sim_events,
                'steps': self.steps}

    @classmethod
    def from_wire(cls, data):
        res = cls()
        res.violations = data['violations']
        res.fixed_digest = data['digest']
        res.stats = collections.Counter(data['stats'])
        res.sched_sig = data['sched_sig']
        res.nontrivial = data['nontrivial']
        res.sim_events = data['sim_events']
        res.steps = data['steps']
        return res


def run_isolated(module, doc):
    """Execute one schedule in a forked child so that whatever it does to process-global state
    (shared default objects, class attributes) cannot leak into later runs of this worker."""
    import pickle
    read_fd, write_fd = os.pipe()
    pid = os.fork()
    if pid == 0:
        code = 0
        try:
            os.close(read_fd)
            try:
                payload = ('ok', _execute(module, doc).to_wire())
            except HarnessError as exc:
                payload = ('harness', str(exc))
            except RunTimeout:
                payload = ('timeout', None)
            except BaseException:  # pylint: disable=broad-except
                payload = ('crash', traceback.format_exc())
            with os.fdopen(write_fd, 'wb') as handle:
                pickle.dump(payload, handle)
        except BaseException:  # pylint: disable=broad-except
            code = 1
        finally:
            os._exit(code)  # pylint: disable=protected-access
    os.close(write_fd)
    with os.fdopen(read_fd, 'rb') as handle:
        blob = handle.read()
    os.waitpid(pid, 0)
    if not blob:
        raise HarnessError('isolated run died without a result')
    status, data = pickle.loads(blob)
    if status == 'ok':
        return Result.from_wire(data)
    if status == 'timeout':
        raise RunTimeout()
    if status == 'harness':
        raise HarnessError(data)
    raise HarnessError('isolated run crashed in the harness:\n%s' % data)


def call_isolated(func, *args):
    """func(*args) in a forked child; returns its (picklable) result.  Exceptions in the child are harness errors."""
    import pickle
    read_fd, write_fd = os.pipe()
    pid = os.fork()
    if pid == 0:
        code = 0
        try:
            os.close(read_fd)
            try:
                payload = ('ok', func(*args))
            except BaseException:  # pylint: disable=broad-except
                payload = ('crash', traceback.format_exc())
            with os.fdopen(write_fd, 'wb') as handle:
                pickle.dump(payload, handle)
        except BaseException:  # pylint: disable=broad-except
            code = 1
        finally:
            os._exit(code)  # pylint: disable=protected-access
    os.close(write_fd)
    with os.fdopen(read_fd, 'rb') as handle:
        blob = handle.read()
    os.waitpid(pid, 0)
    if not blob:
        raise HarnessError('isolated call died without a result')
    status, data = pickle.loads(blob)
    if status != 'ok':
        raise HarnessError('isolated call crashed:\n%s' % data)
    return data


# --------------------------------------------------------------------------------------
# histories of runs: the same run alone in a pristine process vs. after other runs
# --------------------------------------------------------------------------------------

RUNSEQ = 'runseq'


def _execute(module, doc):
    module = getattr(module, 'module', module)      # a RunSeq wrapper stands for its module
    if doc.get('kind') == RUNSEQ:
        return execute_runseq(module, doc)
    return module.execute(doc)


def _outcome_of(module, doc, in_history=False):
    """(digest, violation signatures) of one run, executed the way a batch executes it.  Inside a history a module
    may isolate fewer runs (history_isolation): only those that exercise a listed shared-state finding."""
    isolate = getattr(module, 'needs_isolation', None)
    if in_history:
        isolate = getattr(module, 'history_isolation', isolate)
    if isolate is not None and isolate(doc):
        res = run_isolated(module, doc)
    else:
        res = module.execute(doc)
    return res.digest(), sorted(v['sig'] for v in res.violations), res.sim_events, res.steps


def _outcomes_in_sequence(module, docs):
    return [_outcome_of(module, doc, True) for doc in docs]


def _doc_subject(doc):
    """The class / channel a run is about (for labels and for grouping runs into histories)."""
    def strings(value, depth=0):
        if isinstance(value, str):
            yield value
        elif isinstance(value, (list, tuple)) and depth < 3:
            for item in value[:4]:
                for text in strings(item, depth + 1):
                    yield text

    first = None
    for key in ('cls', 'channel', 'subject', 'subjects'):
        for text in strings(doc.get(key)):
            if text.startswith('cryptoparser.'):
                return text
            if first is None and text and len(text) < 80:
                first = text
    return first or '?'


def doc_label(doc):
    return '%s/%s' % (doc.get('kind', '?'), _doc_subject(doc))


def execute_runseq(module, doc):
    """One history of runs.  Every run of the history is executed twice: alone in a child forked from this
    (pristine) process, and in one child that executes the whole history in order, as a long-lived process would.
    Whatever a run records (objects parsed, bytes composed, texts serialised, counts) must not depend on the runs
    before it: the library documents no state that survives a call.  Runs that the property's own machinery
    isolates (because they exercise a listed shared-state finding) are isolated in the history as well."""
    res = Result()
    docs = doc['docs']
    alone = [call_isolated(_outcome_of, module, item) for item in docs]
    together = call_isolated(_outcomes_in_sequence, module, docs)
    for position, (item, one, other) in enumerate(zip(docs, alone, together)):
        res.event('run', position, doc_label(item), one[0], other[0])
        res.sim_events += one[2]
        res.steps += one[3]
        res.stats['runseq.runs'] += 1
        if one[:2] != other[:2]:
            res.stats['runseq.differs'] += 1
            res.violation(
                (module.PROPERTY, 'depends-on-earlier-runs', doc_label(item)), 'depends-on-earlier-runs',
                'run %d of the history (%s) records digest %s / violations %s when executed alone in a pristine '
                'process, and digest %s / violations %s after the %d runs before it in one process' % (
                    position, doc_label(item), one[0], one[1][:3], other[0], other[1][:3], position))
    res.sched_sig = (RUNSEQ, len(docs), tuple(sorted({doc_label(item) for item in docs}))[:6])
    res.nontrivial = len(docs) > 1
    return res


class RunSeq(object):
    """Module-like wrapper: generate() draws a history of the wrapped module's runs (biased towards runs about
    the same protocol family, where shared state would live), execute() is execute_runseq."""

    def __init__(self, module, lengths=(8, 16, 32, 48)):
        self.module = module
        self.PROPERTY = module.PROPERTY
        self.__name__ = module.__name__
        self.lengths = lengths

    @staticmethod
    def family(doc):
        label = _doc_subject(doc)
        if label.startswith('cryptoparser.'):
            return label.split('.')[1]
        return label.split('_')[0]

    def generate(self, rng, index, tier, extra):
        # drawn in a forked child: senders validate what they compose with the library's own parsers, and that
        # must not touch the state of the process the history's runs are forked from
        return call_isolated(self._generate, rng, index, tier, extra)

    def _generate(self, rng, index, tier, extra):  # pylint: disable=unused-argument
        length = rng.choice(self.lengths)
        docs = []
        theme = None
        themed = rng.random() < 0.7
        # shared state lives where runs touch the same classes: most histories are about one class, or about the
        # classes of one module (this process is a forked child: restricting the generators here is local)
        from simverif import corpus
        paths = corpus.class_paths()
        focus = rng.random()
        if paths and focus < 0.3:
            corpus._FOCUS = {rng.choice(paths)}  # pylint: disable=protected-access
        elif paths and focus < 0.65:
            module_name = rng.choice(paths).rsplit('.', 1)[0]
            corpus._FOCUS = {path for path in paths if path.rsplit('.', 1)[0] == module_name}  # pylint: disable=protected-access
        attempts = 0
        while len(docs) < length and attempts < length * 8:
            attempts += 1
            sub = random.Random(rng.getrandbits(64))
            cand = self.module.generate(sub, rng.randrange(1 << 30), tier, extra)
            if cand.get('kind') == RUNSEQ:
                continue
            if themed and theme is not None and self.family(cand) != theme and rng.random() < 0.8:
                continue
            if theme is None:
                theme = self.family(cand)
            docs.append(cand)
        return {'kind': RUNSEQ, 'docs': docs}

    def execute(self, doc):
        return execute_runseq(self.module, doc)


def shrink_runseq(module, doc, sig, budget):
    doc = dict(doc)
    doc['docs'] = ddmin_list(doc['docs'], lambda cand: bool(cand) and has_sig(module, dict(doc, docs=cand), sig), budget)
    return doc


def run_history_batch(module, seed, tier, n_histories, wall_budget, extra=None, lengths=(8, 16, 32, 48)):
    """A batch of run histories, on its own fork pool (whose workers only ever fork children to execute runs, so
    they stay as pristine as the process that started the batch)."""
    wrapper = RunSeq(module, lengths)
    _WRAPPERS[module.__name__] = wrapper
    return run_batch(wrapper, seed, tier, n_histories, wall_budget, extra, chunk=1, first_index=HISTORY_FIRST_INDEX)


HISTORY_BUDGET = {'quick': (160, 150.0), 'thorough': (6000, 1500.0)}


def history_batch(module, seed, tier, extra=None, scale=1.0, lengths=(8, 16, 32, 48)):
    count, wall = HISTORY_BUDGET[tier]
    return run_history_batch(module, seed, tier, max(16, int(count * scale)), wall, extra, lengths)


_WRAPPERS = {}
HISTORY_FIRST_INDEX = 10 ** 9      # run indices of histories: disjoint from those of ordinary runs


def _alarm_handler(signum, frame):  # pylint: disable=unused-argument
    raise RunTimeout()


RUN_WALL_LIMIT = int(os.environ.get('VERIF_RUN_WALL', '600'))


def guarded_execute(module, doc):
    """Execute one schedule under a wall watchdog.  A hang becomes a violation of the
    property (clause 'hang'), not a harness failure; harness exceptions propagate."""
    old = signal.signal(signal.SIGALRM, _alarm_handler)
    signal.alarm(RUN_WALL_LIMIT)
    try:
        isolate = getattr(module, 'needs_isolation', None)
        if doc.get('kind') != RUNSEQ and isolate is not None and isolate(doc):
            return run_isolated(module, doc)
        return _execute(module, doc)
    except RunTimeout:
        res = Result()
        res.violation((module.PROPERTY, 'hang', doc.get('kind', '?'), doc.get('cls', doc.get('channel', '?'))),
                      'hang', 'one simulated run did not finish within %d s of wall time' % RUN_WALL_LIMIT)
        res.sched_sig = ('hang',)
        return res
    finally:
        signal.alarm(0)
        signal.signal(signal.SIGALRM, old)


# --------------------------------------------------------------------------------------
# batch execution
# --------------------------------------------------------------------------------------

def _sched_hash(sig):
    return int.from_bytes(hashlib.blake2b(repr(sig).encode(), digest_size=8).digest(), 'big')


class ChunkOut(object):
    def __init__(self):
        self.done = 0
        self.stats = collections.Counter()
        self.sched = set()
        self.sched_nontrivial = set()
        self.viol = {}        # sig -> dict(first occurrence)
        self.viol_count = collections.Counter()
        self.samples = []
        self.digest = 0           # sum (mod 2**256) of per-run digests: independent of chunking and worker count
        self.sim_events = 0
        self.steps = 0
        self.truncated = False


_DIGEST_MOD = 1 << 256


def _run_digest_int(index, res):
    return int.from_bytes(hashlib.sha256(('%d:%s' % (index, res.digest())).encode()).digest(), 'big')


def _run_chunk(args):
    mod_name, seed, tier, start, stop, deadline, extra = args
    module = _WRAPPERS.get(mod_name) if start >= HISTORY_FIRST_INDEX else None
    if module is None:
        module = importlib.import_module(mod_name)
    out = ChunkOut()
    for index in range(start, stop):
        if time.time() > deadline:
            out.truncated = True
            break
        rseed = run_seed(seed, module.PROPERTY, index)
        rng = random.Random(rseed)
        try:
            doc = module.generate(rng, index, tier, extra)
            res = guarded_execute(module, doc)
        except HarnessError:
            raise
        except Exception:  # a bug in the machinery; surface it with context, never as VIOLATION
            raise HarnessError('run %d (run_seed %d) of %s crashed in the harness:\n%s' % (
                index, rseed, module.PROPERTY, traceback.format_exc()))
        out.done += 1
        out.stats.update(res.stats)
        out.sim_events += res.sim_events
        out.steps += res.steps
        h = _sched_hash(res.sched_sig)
        out.sched.add(h)
        if res.nontrivial:
            out.sched_nontrivial.add(h)
        out.digest = (out.digest + _run_digest_int(index, res)) % _DIGEST_MOD
        if len(out.samples) < 2 and (res.nontrivial or index == start):
            out.samples.append({'index': index, 'run_seed': rseed, 'schedule': doc,
                                'signature': repr(res.sched_sig)[:400]})
        for v in res.violations:
            out.viol_count[v['sig']] += 1
            if v['sig'] not in out.viol:
                out.viol[v['sig']] = {'sig': v['sig'], 'clause': v['clause'], 'detail': v['detail'],
                                      'index': index, 'run_seed': rseed, 'doc': doc}
    return start, out


class Batch(object):
    """Merged outcome of a batch of runs."""

    def __init__(self):
        self.runs = 0
        self.stats = collections.Counter()
        self.sched = set()
        self.sched_nontrivial = set()
        self.viol = {}
        self.viol_count = collections.Counter()
        self.samples = []
        self.digests = []
        self.sim_events = 0
        self.steps = 0
        self.truncated = False
        self.wall = 0.0

    def digest(self):
        return '%064x' % (sum(self.digests) % _DIGEST_MOD)


def run_batch(module, seed, tier, n_runs, wall_budget, extra=None, workers=None, chunk=None, first_index=0):
    """Run indices first_index..first_index+n_runs over a fork pool; merge in index order."""
    workers = workers or jobs()
    deadline = time.time() + wall_budget
    if chunk is None:
        chunk = max(1, min(2000, n_runs // (workers * 8) or 1))
    tasks = [
        (module.__name__, seed, tier, start, min(start + chunk, first_index + n_runs), deadline, extra)
        for start in range(first_index, first_index + n_runs, chunk)
    ]
    began = time.time()
    outs = []
    if workers == 1 or len(tasks) == 1:
        for task in tasks:
            outs.append(_run_chunk(task))
    else:
        ctx = multiprocessing.get_context('fork')
        with ProcessPoolExecutor(max_workers=workers, mp_context=ctx) as pool:
            futures = [pool.submit(_run_chunk, task) for task in tasks]
            for fut in futures:
                try:
                    outs.append(fut.result(timeout=max(30.0, deadline - time.time() + RUN_WALL_LIMIT + 60)))
                except HarnessError:
                    raise
                except Exception as e:  # BrokenProcessPool, TimeoutError
                    for other in futures:
                        other.cancel()
                    raise HarnessError('worker failure: %r' % (e, ))
    outs.sort(key=lambda pair: pair[0])
    batch = Batch()
    for _, out in outs:
        batch.runs += out.done
        batch.stats.update(out.stats)
        batch.sched |= out.sched
        batch.sched_nontrivial |= out.sched_nontrivial
        batch.sim_events += out.sim_events
        batch.steps += out.steps
        batch.truncated = batch.truncated or out.truncated
        batch.digests.append(out.digest)
        batch.viol_count.update(out.viol_count)
        for sig, v in out.viol.items():
            if sig not in batch.viol or v['index'] < batch.viol[sig]['index']:
                batch.viol[sig] = v
        for sample in out.samples:
            if len(batch.samples) < 4:
                batch.samples.append(sample)
    batch.wall = time.time() - began
    return batch


def merge_batches(batches):
    total = Batch()
    for batch in batches:
        total.runs += batch.runs
        total.stats.update(batch.stats)
        total.sched |= batch.sched
        total.sched_nontrivial |= batch.sched_nontrivial
        total.sim_events += batch.sim_events
        total.steps += batch.steps
        total.truncated = total.truncated or batch.truncated
        total.digests.extend(batch.digests)
        total.viol_count.update(batch.viol_count)
        total.wall += batch.wall
        for sig, v in batch.viol.items():
            total.viol.setdefault(sig, v)
        for sample in batch.samples:
            if len(total.samples) < 6:
                total.samples.append(sample)
    return total


# --------------------------------------------------------------------------------------
# known findings
# --------------------------------------------------------------------------------------

KNOWN_FINDINGS_PATH = os.path.join(VERIF_DIR, 'known_findings.json')


def load_known_findings(prop):
    """Returns {signature: entry} for entries of kind 'finding' of this property.
    'fixed' entries suppress nothing.  The file is never written at run time."""
    if not os.path.exists(KNOWN_FINDINGS_PATH):
        return {}
    with open(KNOWN_FINDINGS_PATH) as handle:
        data = json.load(handle)
    return {
        entry['signature']: entry
        for entry in data.get('findings', [])
        if entry.get('property') == prop
    }


# --------------------------------------------------------------------------------------
# minimisation helpers (delta debugging over explicit schedules)
# --------------------------------------------------------------------------------------

class ShrinkBudget(object):
    def __init__(self, max_evals=600, max_wall=45.0):
        self.max_evals = max_evals
        self.deadline = time.time() + max_wall
        self.evals = 0

    def spent(self):
        return self.evals >= self.max_evals or time.time() > self.deadline


def ddmin_list(items, test, budget):
    """Smallest sub-list (order kept) found by ddmin for which test(sublist) is True."""
    items = list(items)
    n = 2
    while len(items) >= 1 and not budget.spent():
        chunk = max(1, len(items) // n)
        reduced = False
        for start in range(0, len(items), chunk):
            candidate = items[:start] + items[start + chunk:]
            if budget.spent():
                break
            budget.evals += 1
            if test(candidate):
                items = candidate
                n = max(n - 1, 2)
                reduced = True
                break
        if not reduced:
            if chunk == 1:
                break
            n = min(len(items), n * 2)
    return items


def shrink_bytes(data, test, budget, keep_prefix=0):
    """ddmin over the bytes after keep_prefix, then push byte values toward zero."""
    data = bytes(data)
    head, tail = data[:keep_prefix], list(data[keep_prefix:])
    tail = ddmin_list(tail, lambda cand: test(head + bytes(cand)), budget)
    data = bytearray(head + bytes(tail))
    for pos in range(len(data)):
        if budget.spent():
            break
        if data[pos] == 0:
            continue
        for repl in (0, 0x20 if data[pos] > 0x20 else 0, 0x41 if data[pos] > 0x41 else 0):
            if repl >= data[pos]:
                continue
            cand = bytearray(data)
            cand[pos] = repl
            budget.evals += 1
            if test(bytes(cand)):
                data = cand
                break
    return bytes(data)


def shrink_int(value, test, budget, floor=0):
    """Smallest integer >= floor (by bisection-ish descent) for which test() still holds."""
    while value > floor and not budget.spent():
        for cand in (floor, (value + floor) // 2, value - 1):
            if cand >= value or cand < floor:
                continue
            budget.evals += 1
            if test(cand):
                value = cand
                break
        else:
            break
    return value


def has_sig(module, doc, sig):
    try:
        res = guarded_execute(module, doc)
    except HarnessError:
        return False
    except Exception:  # malformed candidate schedule: not a reproduction
        return False
    return any(v['sig'] == sig for v in res.violations)


# --------------------------------------------------------------------------------------
# replay files
# --------------------------------------------------------------------------------------

REPLAY_DIR = os.path.join(VERIF_DIR, 'replays')


def write_replay(prop, violation, minimised, seed, tier):
    os.makedirs(REPLAY_DIR, exist_ok=True)
    sig8 = hashlib.sha256(violation['sig'].encode()).hexdigest()[:8]
    path = os.path.join(REPLAY_DIR, '%s-%d-%s.json' % (prop, violation['run_seed'], sig8))
    with open(path, 'w') as handle:
        json.dump({
            'property': prop,
            'signature': violation['sig'],
            'clause': violation['clause'],
            'detail': violation['detail'],
            'batch_seed': seed,
            'tier': tier,
            'index': violation['index'],
            'run_seed': violation['run_seed'],
            'schedule': minimised,
            'original_schedule': violation['doc'],
        }, handle, indent=1, sort_keys=True)
    return path


def confirm_in_fresh_interpreter(prop, path, sig):
    """The minimised schedule must fail the same way in a new process."""
    env = dict(os.environ)
    env['PYTHONHASHSEED'] = '4242'
    proc = subprocess.run(
        [sys.executable, '-B', os.path.join(VERIF_DIR, 'simverif', 'main.py'), prop, '--replay', path,
         '--expect', sig],
        env=env, stdout=subprocess.PIPE, stderr=subprocess.STDOUT, timeout=RUN_WALL_LIMIT * 3 + 60, check=False)
    return proc.returncode == EXIT_VIOLATION, proc.stdout.decode('utf-8', 'replace')


# --------------------------------------------------------------------------------------
# determinism self-test (miniature, at the start of every check)
# --------------------------------------------------------------------------------------

def mini_digest(module, seed, tier, indices, extra=None):
    h = hashlib.sha256()
    for index in indices:
        rng = random.Random(run_seed(seed, module.PROPERTY, index))
        doc = module.generate(rng, index, tier, extra)
        res = guarded_execute(module, doc)
        h.update(json.dumps(doc, sort_keys=True).encode())
        h.update(res.digest().encode())
        h.update(repr(sorted(v['sig'] for v in res.violations)).encode())
    return h.hexdigest()


class HistoryViolation(Exception):
    """The determinism self-test failed because the library's results depend on earlier calls (shown by a history
    of runs that reproduces in a fresh interpreter): a violation of the property, not a harness fault."""

    def __init__(self, path, sigs, output):
        Exception.__init__(self, path)
        self.path = path
        self.sigs = sigs
        self.output = output


def _explain_nondeterminism(module, seed, tier, indices, extra):
    """Two in-process executions of the same schedules differed.  If the same schedules, executed as a history in a
    fresh interpreter (each alone in a pristine child vs. in order in one child), show a dependence on earlier runs,
    that is the library's doing: HistoryViolation.  Otherwise return (the caller reports a harness error)."""
    docs = []
    for index in indices:
        docs.append(module.generate(random.Random(run_seed(seed, module.PROPERTY, index)), index, tier, extra))
    doc = {'kind': RUNSEQ, 'docs': docs + docs}
    os.makedirs(REPLAY_DIR, exist_ok=True)
    path = os.path.join(REPLAY_DIR, '%s-selftest-%d.json' % (module.PROPERTY, seed))
    with open(path, 'w') as handle:
        json.dump({'property': module.PROPERTY, 'batch_seed': seed, 'tier': tier, 'schedule': doc,
                   'note': 'the schedules of the determinism self-test, twice, as one history of runs'}, handle)
    env = dict(os.environ)
    env['PYTHONHASHSEED'] = '4242'
    proc = subprocess.run([sys.executable, '-B', os.path.join(VERIF_DIR, 'simverif', 'main.py'), module.PROPERTY,
                           '--replay', path, '--shrink-history'], env=env, stdout=subprocess.PIPE,
                          stderr=subprocess.STDOUT, timeout=RUN_WALL_LIMIT * 3 + 60, check=False)
    output = proc.stdout.decode('utf-8', 'replace')
    sigs = [line.split(': ', 1)[1].split(' [')[0] for line in output.splitlines() if line.startswith('replayed violation: ')]
    if proc.returncode == EXIT_VIOLATION and sigs:
        raise HistoryViolation(path, sigs, output)
    os.remove(path)


def shrink_history_file(module, path):
    """--shrink-history: minimise the history stored in a replay file (in this, fresh, interpreter) and store it back."""
    with open(path) as handle:
        data = json.load(handle)
    doc = data['schedule']
    res = guarded_execute(module, doc)
    if res.violations:
        sig = res.violations[0]['sig']
        small = shrink_runseq(module, doc, sig, ShrinkBudget(max_evals=60, max_wall=240.0))
        if has_sig(module, small, sig):
            data['original_schedule'], data['schedule'] = doc, small
            data['signature'], data['clause'], data['detail'] = sig, res.violations[0]['clause'], res.violations[0]['detail']
            with open(path, 'w') as handle:
                json.dump(data, handle, indent=1, sort_keys=True)


def determinism_selftest(module, seed, tier, extra=None, count=24, fresh=True):
    indices = list(range(count))
    first = mini_digest(module, seed, tier, indices, extra)
    second = mini_digest(module, seed, tier, indices, extra)
    if first != second:
        _explain_nondeterminism(module, seed, tier, indices, extra)
        raise HarnessError('non-determinism: two in-process executions of the same run seeds differ')
    if fresh:
        env = dict(os.environ)
        env['PYTHONHASHSEED'] = '97'
        env['VERIF_SEED'] = str(seed)
        proc = subprocess.run(
            [sys.executable, '-B', os.path.join(VERIF_DIR, 'simverif', 'main.py'), module.PROPERTY,
             '--mini-digest', str(count), '--tier', tier],
            env=env, stdout=subprocess.PIPE, stderr=subprocess.PIPE, timeout=600, check=False)
        lines = [line for line in proc.stdout.decode().splitlines() if line.startswith('MINI-DIGEST ')]
        if proc.returncode != 0 or not lines:
            raise HarnessError('determinism self-test subprocess failed: %s' % proc.stderr.decode()[-2000:])
        if lines[-1].split()[1] != first:
            raise HarnessError('non-determinism: fresh interpreter under another PYTHONHASHSEED disagrees')
    return first


# --------------------------------------------------------------------------------------
# evidence
# --------------------------------------------------------------------------------------

EVIDENCE_DIR = os.path.join(VERIF_DIR, 'evidence')


def write_evidence(prop, tier, seed, level, coverage, assumptions, wall_s, violations):
    os.makedirs(EVIDENCE_DIR, exist_ok=True)
    path = os.path.join(EVIDENCE_DIR, '%s.json' % prop)
    doc = {
        'property_id': prop,
        'tier': tier,
        'seed': seed,
        'level': level,
        'coverage': coverage,
        'assumptions': assumptions,
        'wall_s': round(wall_s, 3),
        'violations': violations,
    }
    tmp = path + '.tmp'
    with open(tmp, 'w') as handle:
        json.dump(doc, handle, indent=1, sort_keys=True, default=str)
    os.replace(tmp, path)
    return path


def coverage_from_batch(batch, rule, fault_kinds=None, probes=None, components=None, extra=None):
    """Exploration-style coverage block from a merged batch."""
    stats = batch.stats
    faults = {k[len('fault.'):]: v for k, v in sorted(stats.items()) if k.startswith('fault.')}
    for name in fault_kinds or ():
        faults.setdefault(name, 0)
    probe_counts = {k[len('probe.'):]: v for k, v in sorted(stats.items()) if k.startswith('probe.')}
    for name in probes or ():
        probe_counts.setdefault(name, 0)
    other = {k: v for k, v in sorted(stats.items()) if not k.startswith(('fault.', 'probe.'))}
    hours = max(batch.wall, 1e-9) / 3600.0
    coverage = {
        'evaluations': batch.runs,
        'distinct_nontrivial': len(batch.sched_nontrivial),
        'distinct_schedules': len(batch.sched),
        'rule': rule,
        'samples': batch.samples[:4],
        'simulated_runs': batch.runs,
        'runs_per_hour': int(batch.runs / hours),
        'seeds_per_hour': int(batch.runs / hours),
        'simulated_time': {
            'events': batch.sim_events,
            'library_line_steps': batch.steps,
            'unit': 'events = deliveries/reader steps/operations executed by the simulator; '
                    'line steps = sys.monitoring LINE events inside repo code (0 when the step clock is off)',
        },
        'faults_fired': faults,
        'reach_probes': probe_counts,
        'counters': other,
        'budget_exhausted_before_all_runs': batch.truncated,
        'batch_digest': batch.digest(),
        'components': components or {},
        'exhaustive': False,
    }
    if extra:
        coverage.update(extra)
    return coverage


# --------------------------------------------------------------------------------------
# standard check driver
# --------------------------------------------------------------------------------------

def report_and_exit(module, batch, seed, tier, coverage, assumptions, level, began):
    """Classify violations (known finding / new), minimise and confirm new ones, write
    evidence, print the verdict lines, return the exit code."""
    prop = module.PROPERTY
    known = load_known_findings(prop)
    new = []
    for sig in sorted(batch.viol):
        if sig in known:
            print('KNOWN-FINDING: property=%s %s  [signature %s; seen %d times this run]' % (
                prop, known[sig].get('what', ''), sig, batch.viol_count[sig]))
        else:
            new.append(batch.viol[sig])
    for sig in sorted(known):
        if sig not in batch.viol:
            print('note: listed finding not reproduced in this run: %s' % sig)
    exit_code = EXIT_OK
    reported = 0
    max_reports = int(os.environ.get('VERIF_MAX_REPORTS', '12'))
    for violation in new:
        if reported >= max_reports:
            print('note: further distinct violation signature not minimised: %s' % violation['sig'])
            exit_code = EXIT_VIOLATION
            continue
        budget = ShrinkBudget()
        try:
            if violation['doc'].get('kind') == RUNSEQ:
                minimised = shrink_runseq(module, violation['doc'], violation['sig'], budget)
            else:
                minimised = module.shrink(violation['doc'], violation['sig'], budget)
        except Exception:  # shrinking is best-effort; fall back to the original schedule
            minimised = violation['doc']
        if not has_sig(module, minimised, violation['sig']):
            minimised = violation['doc']
        path = write_replay(prop, violation, minimised, seed, tier)
        ok, output = confirm_in_fresh_interpreter(prop, path, violation['sig'])
        if not ok:
            print('HARNESS-ERROR: violation %s found at index %d did not reproduce from its replay file in a '
                  'fresh interpreter:\n%s' % (violation['sig'], violation['index'], output[-1500:]))
            os.replace(path, path + '.unconfirmed')
            exit_code = EXIT_HARNESS if exit_code == EXIT_OK else exit_code
            continue
        print('VIOLATION property=%s replay=%s' % (prop, path))
        print('  signature: %s' % violation['sig'])
        print('  clause:    %s' % violation['clause'])
        print('  detail:    %s' % violation['detail'][:600])
        print('  run:       batch_seed=%d index=%d run_seed=%d (seen %d times this run)' % (
            seed, violation['index'], violation['run_seed'], batch.viol_count[violation['sig']]))
        reported += 1
        exit_code = EXIT_VIOLATION
    coverage['known_findings_seen'] = sorted(sig for sig in batch.viol if sig in known)
    write_evidence(prop, tier, seed, level, coverage, assumptions, time.time() - began, len(new))
    print('%s tier=%s seed=%d runs=%d distinct_nontrivial=%d wall=%.1fs -> %s' % (
        prop, tier, seed, batch.runs, len(batch.sched_nontrivial), time.time() - began,
        {0: 'held on everything explored', 1: 'VIOLATED', 2: 'HARNESS ERROR'}[exit_code]))
    return exit_code


def replay(module, path, expect=None):
    with open(path) as handle:
        data = json.load(handle)
    doc = data.get('schedule', data)
    res = guarded_execute(module, doc)
    sigs = [v['sig'] for v in res.violations]
    want = expect or data.get('signature')
    for v in res.violations:
        print('replayed violation: %s [%s] %s' % (v['sig'], v['clause'], v['detail'][:400]))
    print('REPLAY-DIGEST %s' % res.digest())
    if (want and want in sigs) or (not want and sigs):
        print('VIOLATION property=%s replay=%s' % (module.PROPERTY, path))
        return EXIT_VIOLATION
    if sigs:
        print('replay produced different violation signatures than recorded: %s' % sigs)
        return EXIT_VIOLATION if not expect else EXIT_OK
    print('replay: no violation')
    return EXIT_OK
