# -*- coding: utf-8 -*-
"""./check selftest [determinism|mutants]

determinism: for every claimed property a sample of run seeds is executed at 1 and at 16 workers
(batch digests must match), twice in-process and once in a fresh interpreter under another
PYTHONHASHSEED (mini digests must match).
mutants: every patch under /verif/mutants is applied to a scratch worktree of the repo (never to
/repo); the quick tier of its property must report a violation (exit 1)."""

import glob
import importlib
import os
import subprocess
import sys
import tempfile
import time

from simverif import core

PROPS = ('C02', 'C03', 'C04', 'C11', 'C12', 'C13', 'C14', 'C19')


def determinism(tier):
    core.setup_repo()
    failed = 0
    for prop in PROPS:
        module = importlib.import_module('simverif.props.' + prop.lower())
        extra = module.prepare(tier)
        began = time.time()
        try:
            digest = core.determinism_selftest(module, core.batch_seed(), tier, extra, count=60)
            one = core.run_batch(module, core.batch_seed(), tier, 320, 600.0, extra, workers=1)
            many = core.run_batch(module, core.batch_seed(), tier, 320, 600.0, extra, workers=16)
            if one.digest() != many.digest() or sorted(one.viol) != sorted(many.viol):
                raise core.HarnessError('batch digest differs between 1 and 16 workers')
            # histories of runs (each run alone in a pristine child vs. in order in one child)
            wrapper = core.RunSeq(module, (4, 8))
            core._WRAPPERS[module.__name__] = wrapper  # pylint: disable=protected-access
            first = core.HISTORY_FIRST_INDEX
            h_one = core.run_batch(wrapper, core.batch_seed(), tier, 6, 600.0, extra, workers=1, chunk=1, first_index=first)
            h_many = core.run_batch(wrapper, core.batch_seed(), tier, 6, 600.0, extra, workers=6, chunk=1, first_index=first)
            if h_one.digest() != h_many.digest() or sorted(h_one.viol) != sorted(h_many.viol):
                raise core.HarnessError('digest of a batch of run histories differs between 1 and 6 workers')
            print('determinism %s: ok (mini %s, batch %s, %.1fs)' % (prop, digest[:12], one.digest()[:12], time.time() - began))
        except core.HarnessError as exc:
            failed += 1
            print('determinism %s: FAILED - %s' % (prop, exc))
    return core.EXIT_HARNESS if failed else core.EXIT_OK


def mutants(tier):  # pylint: disable=unused-argument
    patches = sorted(glob.glob(os.path.join(core.VERIF_DIR, 'mutants', '*.patch')))
    patches += sorted(glob.glob(os.path.join(core.VERIF_DIR, 'seeded', '*', 'patch.diff')))
    missed = 0
    for patch in patches:
        if patch.endswith('patch.diff'):
            import json
            with open(os.path.join(os.path.dirname(patch), 'meta.json')) as handle:
                meta = json.load(handle)
            props = meta.get('caught_by') or [meta['property']]
            label = 'seeded/' + os.path.basename(os.path.dirname(patch))
            if meta.get('status', '').startswith('neutralised'):
                print('mutant %-55s skipped (%s)' % (label, meta['status'][:90]))
                continue
        else:
            props = [os.path.basename(patch).split('_')[0].upper()]
            label = 'mutants/' + os.path.basename(patch)
        scratch = tempfile.mkdtemp(prefix='vmut.', dir='/tmp')
        os.rmdir(scratch)
        try:
            subprocess.run(['git', '-C', core.REPO, 'worktree', 'add', '--detach', '-q', scratch, 'HEAD'], check=True)
            if subprocess.run(['git', '-C', scratch, 'apply', patch], check=False).returncode:
                print('mutant %-55s STALE (does not apply to the current tree)' % label)
                missed += 1
                continue
            caught = []
            for prop in props:
                env = dict(os.environ, VERIF_REPO=scratch)
                proc = subprocess.run([os.path.join(core.VERIF_DIR, 'check'), prop, '--tier', 'quick'], env=env,
                                      stdout=subprocess.PIPE, stderr=subprocess.STDOUT, timeout=3600, check=False)
                if proc.returncode == core.EXIT_VIOLATION:
                    caught.append(prop)
                elif proc.returncode == core.EXIT_HARNESS:
                    print('  %s: harness error under %s:\n%s' % (prop, label, proc.stdout.decode()[-600:]))
            print('mutant %-55s %s' % (label, 'caught by ' + ','.join(caught) if caught else 'MISSED'))
            if not caught:
                missed += 1
        finally:
            subprocess.run(['git', '-C', core.REPO, 'worktree', 'remove', '--force', scratch], check=False,
                           stdout=subprocess.DEVNULL, stderr=subprocess.DEVNULL)
            subprocess.run(['rm', '-rf', scratch], check=False)
        for stale in glob.glob(os.path.join(core.REPLAY_DIR, '*.json')):
            os.remove(stale)
    print('mutants: %d patches, %d missed' % (len(patches), missed))
    return core.EXIT_VIOLATION if missed else core.EXIT_OK


def main(what, tier):
    if what in (None, 'determinism'):
        code = determinism(tier)
        if what or code:
            return code
    if what in (None, 'mutants'):
        return mutants(tier)
    print('usage: check selftest [determinism|mutants]')
    return core.EXIT_HARNESS
