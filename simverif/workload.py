# -*- coding: utf-8 -*-
"""Sender side of wiresim: real library objects built through public constructors and
compose()d into framing units, per stream channel.  Everything random comes from the run's
PRNG.  Sizes are swarm-randomised with a bias to boundary values."""

import datetime

from simverif import corpus

class SenderRejected(Exception):
    """A unit the library composed from a properly constructed object is not accepted whole by the library's own
    parser (or could not be constructed / composed at all)."""

    def __init__(self, channel, errors, unit=None):
        super(SenderRejected, self).__init__('channel %s: %s' % (channel, sorted(set(errors))))
        self.channel = channel
        self.errors = sorted(set(errors))
        self.unit = unit


_SIZES = (0, 1, 2, 3, 4, 5, 7, 8, 15, 16, 31, 32, 33, 63, 64, 127, 128, 255, 256, 257, 300, 511, 1024)


def rbytes(rng, n):
    return bytes(rng.getrandbits(8) for _ in range(n)) if n < 64 else rng.getrandbits(8 * n).to_bytes(n, 'big')


def rsize(rng, hi=None, big=False):
    r = rng.random()
    if r < 0.7:
        n = rng.choice(_SIZES)
    elif r < 0.95 or not big:
        n = rng.randrange(0, 400)
    else:
        n = rng.choice((2 ** 14, 2 ** 14 + 1, 2 ** 16 - 6, 2 ** 16 - 5, 20000, 40000))
    if hi is not None:
        n = min(n, hi)
    return n


class Pools(object):
    """Payload objects harvested from the corpus (parsed by the tree under test)."""

    def __init__(self):
        P = 'cryptoparser.'
        self.hs_classes = [
            P + 'tls.subprotocol.' + name for name in (
                'TlsHandshakeClientHello', 'TlsHandshakeServerHello', 'TlsHandshakeCertificate',
                'TlsHandshakeCertificateRequest', 'TlsHandshakeCertificateStatus',
                'TlsHandshakeHelloRetryRequest', 'TlsHandshakeServerHelloDone', 'TlsHandshakeServerKeyExchange')
        ]
        self.hs_bytes = corpus.composed(self.hs_classes)
        self.ext_client = [o for _, o in corpus.objects(P + 'tls.extension.TlsExtensionVariantClient')]
        self.ext_server = [o for _, o in corpus.objects(P + 'tls.extension.TlsExtensionVariantServer')]
        for path in corpus.class_paths():
            if path.startswith(P + 'tls.extension.TlsExtension') and not path.endswith(
                    ('Factory', 'Vector', 'VariantClient', 'VariantServer', 'sClient', 'sServer')):
                objs = [o for _, o in corpus.objects(path)]
                if path.endswith('Server') or 'Server' in path.rsplit('.', 1)[1]:
                    self.ext_server += objs
                elif path.endswith('Client') or 'Client' in path.rsplit('.', 1)[1]:
                    self.ext_client += objs
                else:
                    self.ext_client += objs
                    self.ext_server += objs
        self.ext_client = self._usable_extensions(self.ext_client, 'client')
        self.ext_server = self._usable_extensions(self.ext_server, 'server')
        self.host_keys = [o for _, o in corpus.objects(P + 'ssh.key.SshHostPublicKeyVariant')]
        self.ssh_init = [o for _, o in corpus.objects(P + 'ssh.subprotocol.SshMessageVariantInit')]
        self.ssh_dh = [o for _, o in corpus.objects(P + 'ssh.subprotocol.SshMessageVariantKexDH')]
        self.ssh_gex = [o for _, o in corpus.objects(P + 'ssh.subprotocol.SshMessageVariantKexDHGroup')]
        self.ssl2 = []
        for name in ('SslHandshakeClientHello', 'SslHandshakeServerHello', 'SslErrorMessage'):
            self.ssl2 += [o for _, o in corpus.objects(P + 'tls.subprotocol.' + name)]
        self.mysql_payloads = corpus.composed([P + 'tls.mysql.MySQLHandshakeV10', P + 'tls.mysql.MySQLHandshakeSslRequest'])
        self.cotp = corpus.composed([P + 'tls.rdp.COTPConnectionRequest', P + 'tls.rdp.COTPConnectionConfirm'])
        self.openvpn = corpus.composed([P + 'tls.openvpn.OpenVpnPacketVariant'])
        self.banners = corpus.composed([P + 'ssh.subprotocol.SshProtocolMessage'])
        self.kexinit = [o for _, o in corpus.objects(P + 'ssh.subprotocol.SshKeyExchangeInit')]


    @staticmethod
    def _usable_extensions(pool, side):
        """Extension objects harvested from the corpus are only sent inside a hello of the side they belong to:
        keep those that a minimal hello carries through compose and parse unchanged (an HRR-only key share, or an
        'unparsed' extension that carries a known type, is not a valid client / server hello extension)."""
        from cryptodatahub.tls.algorithm import TlsCipherSuite
        from cryptoparser.tls.subprotocol import TlsHandshakeClientHello, TlsHandshakeServerHello
        from simverif.canon import canon
        suite = list(TlsCipherSuite)[0]
        usable = []
        for ext in pool:
            try:
                if side == 'client':
                    hello = TlsHandshakeClientHello(cipher_suites=[suite], extensions=[ext])
                else:
                    hello = TlsHandshakeServerHello(cipher_suite=suite, extensions=[ext])
                back = type(hello).parse_exact_size(bytes(hello.compose()))
                if len(back.extensions) == 1 and canon(back.extensions[0]) == canon(ext):
                    usable.append(ext)
            except Exception:  # pylint: disable=broad-except
                continue
        return usable


_POOLS = None


def pools():
    global _POOLS  # pylint: disable=global-statement
    if _POOLS is None:
        _POOLS = Pools()
    return _POOLS


# ---------------------------------------------------------------- TLS handshake messages

def _hello_random(rng):
    from cryptoparser.tls.subprotocol import TlsHandshakeHelloRandom, TlsHandshakeHelloRandomBytes
    stamp = rng.choice((0, 1, 2 ** 31 - 1, 2 ** 31, 2 ** 32 - 1, rng.randrange(2 ** 32)))
    return TlsHandshakeHelloRandom(
        datetime.datetime.utcfromtimestamp(stamp), TlsHandshakeHelloRandomBytes(bytearray(rbytes(rng, 28))))


def _version(rng):
    from cryptoparser.tls.version import TlsProtocolVersion, TlsVersion
    return TlsProtocolVersion(rng.choice(
        (TlsVersion.SSL3, TlsVersion.TLS1, TlsVersion.TLS1_1, TlsVersion.TLS1_2, TlsVersion.TLS1_3)))


def _pick_extensions(rng, pool):
    if not pool or rng.random() < 0.3:
        return []
    chosen, seen = [], set()
    for ext in rng.sample(pool, min(len(pool), rng.randrange(1, 8))):
        key = repr(getattr(ext, 'extension_type', None))
        if key in seen:
            continue
        seen.add(key)
        chosen.append(ext)
    return chosen


def hs_client_hello(rng):
    from cryptodatahub.tls.algorithm import TlsCipherSuite, TlsCompressionMethod
    from cryptoparser.tls.subprotocol import TlsHandshakeClientHello
    suites = list(TlsCipherSuite)
    # (the 32765-suite hello at the vector ceiling is built by C13 itself: parsing it costs ~0.3 s, too much for
    # schedules that parse once per delivered byte)
    count = rng.choice((1, 1, 2, 5, 17, 64, 200)) if rng.random() < 0.995 else rng.choice((600, 2000))
    chosen = [rng.choice(suites) for _ in range(count)]
    return TlsHandshakeClientHello(
        cipher_suites=chosen,
        protocol_version=_version(rng),
        random=_hello_random(rng),
        session_id=list(rbytes(rng, rng.choice((0, 0, 1, 16, 31, 32)))),
        compression_methods=[TlsCompressionMethod.NULL] if rng.random() < 0.7 else list(TlsCompressionMethod)[:2],
        extensions=_pick_extensions(rng, pools().ext_client),
        fallback_scsv=rng.random() < 0.3,
        empty_renegotiation_info_scsv=rng.random() < 0.5,
    )


def hs_server_hello(rng):
    from cryptodatahub.tls.algorithm import TlsCipherSuite
    from cryptoparser.tls.subprotocol import TlsHandshakeServerHello
    return TlsHandshakeServerHello(
        protocol_version=_version(rng),
        random=_hello_random(rng),
        session_id=list(rbytes(rng, rng.choice((0, 1, 32, 32)))),
        cipher_suite=rng.choice(list(TlsCipherSuite)),
        extensions=_pick_extensions(rng, pools().ext_server),
    )


def hs_certificate(rng):
    from cryptoparser.tls.subprotocol import TlsHandshakeCertificate, TlsCertificates, TlsCertificate
    certs = [TlsCertificate(rbytes(rng, rsize(rng, big=rng.random() < 0.1))) for _ in range(rng.choice((1, 1, 2, 3, 6)))]
    if rng.random() < 0.03:
        certs.append(TlsCertificate(rbytes(rng, rng.choice((2 ** 16, 70000)))))   # 24-bit lengths above 64 KiB
    chain = TlsCertificates(certs)
    if rng.random() < 0.3:
        # the sender replaces the DER of a certificate that is already in the chain (in place), then sends
        chain[rng.randrange(len(chain))].certificate = rbytes(rng, rsize(rng))
    return TlsHandshakeCertificate(chain)


def hs_server_key_exchange(rng):
    from cryptoparser.tls.subprotocol import TlsHandshakeServerKeyExchange
    return TlsHandshakeServerKeyExchange(rbytes(rng, rsize(rng)))


def hs_certificate_status(rng):
    from cryptoparser.tls.subprotocol import TlsHandshakeCertificateStatus
    from cryptoparser.tls.extension import TlsCertificateStatusType
    return TlsHandshakeCertificateStatus(TlsCertificateStatusType.OCSP, bytearray(rbytes(rng, rsize(rng))))


def hs_server_hello_done(rng):  # pylint: disable=unused-argument
    from cryptoparser.tls.subprotocol import TlsHandshakeServerHelloDone
    return TlsHandshakeServerHelloDone()


def hs_certificate_request(rng):
    from cryptoparser.tls.subprotocol import (
        TlsHandshakeCertificateRequest, TlsClientCertificateType, TlsDistinguishedName)
    from cryptodatahub.tls.algorithm import TlsSignatureAndHashAlgorithm
    types = rng.sample(list(TlsClientCertificateType), rng.randrange(1, 5))
    names = [TlsDistinguishedName(list(rbytes(rng, rng.randrange(1, 40)))) for _ in range(rng.randrange(0, 4))]
    algos = None
    if rng.random() < 0.5:
        algos = rng.sample(list(TlsSignatureAndHashAlgorithm), rng.randrange(1, 6))
    message = TlsHandshakeCertificateRequest(types, names, algos)
    if names and rng.random() < 0.3:
        # a name that is already in the message is extended in place before the message is sent
        authorities = message.certificate_authorities
        authorities[rng.randrange(len(authorities))].extend(list(rbytes(rng, rng.randrange(1, 30))))
    return message


def hs_hello_retry_request(rng):
    from cryptodatahub.tls.algorithm import TlsCipherSuite
    from cryptoparser.tls.subprotocol import TlsHandshakeHelloRetryRequest
    return TlsHandshakeHelloRetryRequest(
        cipher_suite=rng.choice(list(TlsCipherSuite)),
        session_id=list(rbytes(rng, rng.choice((0, 32)))),
        extensions=_pick_extensions(rng, pools().ext_server),
    )


def handshake_twins(rng):
    """Two to four consecutive handshake messages of exactly the same total length and different content (the same
    or different message types), as a peer sending several certificates / key exchange blobs of one size does.
    bytes of each message, composed by the library."""
    from cryptoparser.tls.subprotocol import (
        TlsHandshakeCertificate, TlsCertificates, TlsCertificate, TlsHandshakeServerKeyExchange,
        TlsHandshakeCertificateStatus)
    from cryptoparser.tls.extension import TlsCertificateStatusType
    payload = rng.choice((24, 100, 506, 512, 600, 1000, 2048, 5000))
    out = []
    for _ in range(rng.choice((2, 2, 3, 4))):
        kind = rng.randrange(3)
        if kind == 0:
            message = TlsHandshakeServerKeyExchange(rbytes(rng, payload))
        elif kind == 1:
            message = TlsHandshakeCertificate(TlsCertificates([TlsCertificate(rbytes(rng, payload - 6))]))
        else:
            message = TlsHandshakeCertificateStatus(TlsCertificateStatusType.OCSP, bytearray(rbytes(rng, payload - 4)))
        out.append(bytes(message.compose()))
    return out


HS_FACTORIES = (
    hs_client_hello, hs_client_hello, hs_server_hello, hs_server_hello, hs_certificate, hs_server_key_exchange,
    hs_certificate_status, hs_server_hello_done, hs_certificate_request, hs_hello_retry_request,
)


def _handshake_message(rng):
    if pools().hs_bytes and rng.random() < 0.35:
        return rng.choice(pools().hs_bytes)
    factory = rng.choice(HS_FACTORIES)
    return bytes(factory(rng).compose())


def handshake_message(rng, discards=None, validate=True):
    """bytes of one handshake message, composed by the library and accepted by its own parser."""
    if not validate:
        return _handshake_message(rng)
    from cryptoparser.tls.subprotocol import TlsHandshakeMessageVariant
    from simverif import core
    try:
        raw = _handshake_message(rng)
    except Exception as exc:  # pylint: disable=broad-except
        raise SenderRejected('tls_handshake', ['construct/compose: ' + type(exc).__name__], None)
    try:
        TlsHandshakeMessageVariant.parse_exact_size(raw)
    except Exception as exc:  # pylint: disable=broad-except
        if discards is not None:
            discards.append(type(exc).__name__)
        raise SenderRejected('tls_handshake', [type(exc).__name__], raw)
    return raw


# ---------------------------------------------------------------- framing units

def make_tls_record(rng, fragment=None):
    from cryptoparser.tls.record import TlsRecord
    from cryptoparser.tls.subprotocol import TlsContentType, TlsAlertMessage, TlsAlertLevel, TlsAlertDescription
    from cryptoparser.tls.subprotocol import TlsChangeCipherSpecMessage
    content_type = TlsContentType.HANDSHAKE
    if fragment is None:
        kind = rng.random()
        if kind < 0.55:
            fragment = handshake_message(rng, validate=False)
        elif kind < 0.65:
            level = rng.choice(list(TlsAlertLevel))
            descr = rng.choice(list(TlsAlertDescription))
            fragment = bytes(TlsAlertMessage(level, descr).compose())
            content_type = TlsContentType.ALERT
        elif kind < 0.72:
            fragment = bytes(TlsChangeCipherSpecMessage().compose())
            content_type = TlsContentType.CHANGE_CIPHER_SPEC
        else:
            fragment = rbytes(rng, rsize(rng, hi=2 ** 16 - 1, big=True))
            content_type = rng.choice((TlsContentType.APPLICATION_DATA, TlsContentType.HEARTBEAT))
    return bytes(TlsRecord(fragment[:2 ** 16 - 1], _version(rng), content_type).compose())


def make_tls_handshake(rng):
    return handshake_message(rng, validate=False)


def make_ssl2_record(rng):
    from cryptodatahub.tls.algorithm import SslCipherKind
    from cryptoparser.tls.record import SslRecord
    from cryptoparser.tls.subprotocol import (
        SslHandshakeClientHello, SslHandshakeServerHello, SslErrorMessage, SslErrorType)
    kind = rng.random()
    if kind < 0.2 and pools().ssl2:
        message = rng.choice(pools().ssl2)
    elif kind < 0.55:
        message = SslHandshakeClientHello(
            cipher_kinds=rng.sample(list(SslCipherKind), rng.randrange(0, len(SslCipherKind) + 1)),
            session_id=rbytes(rng, rng.choice((0, 0, 16))),
            challenge=rbytes(rng, rng.choice((16, 16, 32, 0, 1))),
        )
    elif kind < 0.9:
        message = SslHandshakeServerHello(
            # (the 2-byte record header carries a 15-bit length: exercise both sides of 2**14)
            certificate=rbytes(rng, rsize(rng, hi=3000) if rng.random() < 0.93 else rng.choice((16300, 16384, 20000, 32600))),
            cipher_kinds=rng.sample(list(SslCipherKind), rng.randrange(0, len(SslCipherKind) + 1)),
            connection_id=rbytes(rng, rng.choice((0, 16, 16, 1))),
            session_id_hit=rng.random() < 0.5,
        )
    else:
        message = SslErrorMessage(rng.choice(list(SslErrorType)))
    return bytes(SslRecord(message).compose())


def _valid_ssl2_body(rng):
    """message type + message of an SSL 2.0 record, composed by the library and accepted by its own parser
    in the 2-byte-header form (so that only the header form differs)."""
    from cryptoparser.tls.record import SslRecord
    for _ in range(20):
        two_byte = make_ssl2_record(rng)
        try:
            SslRecord.parse_exact_size(two_byte)
        except Exception:  # pylint: disable=broad-except
            continue
        if len(two_byte) - 2 + 15 < 2 ** 14:
            return two_byte[2:]
    raise SenderRejected('ssl2_record', ['no valid 2-byte-header record'])


def make_ssl2_record_long_header(rng):
    """An SSL 2.0 record with the 3-byte header form (padding length octet, optional IS-ESCAPE bit) as a peer
    implementing the SSL 2.0 specification may send it.  The library only composes the 2-byte form, so the
    message is composed by the library and the record header is written from the specification:
    byte0 = escape(0x40) | length >> 8 (6 bits), byte1 = length & 0xff, byte2 = padding; length counts the
    message and the padding."""
    body = _valid_ssl2_body(rng)
    padding = rng.choice((0, 0, 1, 7, 8, 15))
    length = len(body) + padding
    escape = 0x40 if rng.random() < 0.5 else 0
    return bytes((escape | (length >> 8), length & 0xff, padding)) + body + bytes(rng.getrandbits(8) for _ in range(padding))


def _name_list(rng, enum_class, unknown=True):
    members = list(enum_class)
    items = rng.sample(members, min(len(members), rng.choice((0, 1, 1, 2, 3, 8, 20))))
    if unknown and rng.random() < 0.3:
        items.insert(rng.randrange(len(items) + 1), 'x-unknown-%d@example.com' % rng.randrange(1000))
    return items


def ssh_kexinit(rng):
    from cryptodatahub.ssh.algorithm import (
        SshKexAlgorithm, SshHostKeyAlgorithm, SshEncryptionAlgorithm, SshMacAlgorithm, SshCompressionAlgorithm)
    from cryptoparser.ssh.subprotocol import SshKeyExchangeInit
    return SshKeyExchangeInit(
        kex_algorithms=_name_list(rng, SshKexAlgorithm),
        host_key_algorithms=_name_list(rng, SshHostKeyAlgorithm),
        encryption_algorithms_client_to_server=_name_list(rng, SshEncryptionAlgorithm),
        encryption_algorithms_server_to_client=_name_list(rng, SshEncryptionAlgorithm),
        mac_algorithms_client_to_server=_name_list(rng, SshMacAlgorithm),
        mac_algorithms_server_to_client=_name_list(rng, SshMacAlgorithm),
        compression_algorithms_client_to_server=_name_list(rng, SshCompressionAlgorithm),
        compression_algorithms_server_to_client=_name_list(rng, SshCompressionAlgorithm),
        first_kex_packet_follows=rng.randrange(2),
        cookie=bytearray(rbytes(rng, 16)),
    )


def ssh_message(rng, family):
    from cryptoparser.ssh import subprotocol as sp
    pool = {'init': pools().ssh_init, 'dh': pools().ssh_dh, 'gex': pools().ssh_gex}[family]
    kind = rng.random()
    if kind < 0.2 and pool:
        return rng.choice(pool)
    common = [
        lambda: ssh_kexinit(rng),
        lambda: sp.SshDisconnectMessage(rng.choice(list(sp.SshReasonCode)), rng.choice(('', 'bye', u'z\xe1r\xf3', 'x' * 300)),
                                        rng.choice(('', 'US', 'en-GB'))),
        lambda: sp.SshUnimplementedMessage(rng.choice((0, 1, 2 ** 32 - 1, rng.randrange(2 ** 32)))),
    ]
    if family == 'init':
        return rng.choice(common)()
    keys = pools().host_keys
    if family == 'dh':
        extra = [
            lambda: sp.SshDHKeyExchangeInit(bytearray(rbytes(rng, rsize(rng)))),
            lambda: sp.SshNewKeys(),
        ]
        if keys:
            extra.append(lambda: sp.SshDHKeyExchangeReply(
                rng.choice(keys), bytearray(rbytes(rng, rsize(rng))), bytearray(rbytes(rng, rsize(rng)))))
    else:
        extra = [
            lambda: sp.SshDHGroupExchangeInit(bytearray(rbytes(rng, rsize(rng)))),
            lambda: sp.SshNewKeys(),
            lambda: sp.SshDHGroupExchangeRequest(rng.randrange(2 ** 32), rng.randrange(2 ** 32), rng.randrange(2 ** 32)),
            lambda: sp.SshDHGroupExchangeGroup(bytearray(rbytes(rng, rsize(rng))), bytearray(rbytes(rng, rng.choice((0, 1, 2))))),
        ]
        if keys:
            extra.append(lambda: sp.SshDHGroupExchangeReply(
                rng.choice(keys), bytearray(rbytes(rng, rsize(rng))), bytearray(rbytes(rng, rsize(rng)))))
    return rng.choice(common + extra + extra)()


def make_ssh_record(family):
    def make(rng):
        from cryptoparser.ssh import record
        cls = {'init': record.SshRecordInit, 'dh': record.SshRecordKexDH, 'gex': record.SshRecordKexDHGroup}[family]
        return bytes(cls(ssh_message(rng, family)).compose())
    return make


def make_mysql(rng):
    from cryptoparser.tls.mysql import MySQLRecord
    if pools().mysql_payloads and rng.random() < 0.4:
        payload = rng.choice(pools().mysql_payloads)
    else:
        payload = rbytes(rng, rsize(rng, big=True))
        if rng.random() < 0.04:
            # the third octet of the 24-bit little-endian length is non-zero only from 64 KiB on
            payload = rbytes(rng, rng.choice((2 ** 16, 2 ** 16 + 1, 70000, 2 ** 17 + 3)))
    return bytes(MySQLRecord(rng.randrange(256), payload).compose())


def make_tpkt(rng):
    from cryptoparser.tls.rdp import TPKT
    if pools().cotp and rng.random() < 0.4:
        payload = rng.choice(pools().cotp)
    else:
        payload = rbytes(rng, rsize(rng, hi=2 ** 16 - 5, big=True))
    return bytes(TPKT(3, payload).compose())


def make_openvpn_tcp(rng):
    from cryptoparser.tls.openvpn import OpenVpnPacketWrapperTcp
    if pools().openvpn and rng.random() < 0.4:
        payload = rng.choice(pools().openvpn)
    else:
        payload = rbytes(rng, rsize(rng, hi=2 ** 16 - 1, big=True))
    return bytes(OpenVpnPacketWrapperTcp(payload).compose())


def make_openvpn_fixed(rng):
    """An OpenVPN packet of one of the formats whose length follows from its own fields (acknowledgement, hard
    resets), with 0..8 acknowledged packet ids."""
    from cryptoparser.tls import openvpn
    count = rng.choice((0, 1, 1, 2, 3, 4, 5, 8))
    ids = [rng.getrandbits(32) for _ in range(count)]
    session, remote = rng.getrandbits(64), rng.getrandbits(64)
    kind = rng.randrange(3)
    if kind == 0:
        packet = openvpn.OpenVpnPacketAckV1(session, remote if ids else None, ids)
    elif kind == 1:
        packet = openvpn.OpenVpnPacketHardResetClientV2(session, rng.getrandbits(32))
    else:
        packet = openvpn.OpenVpnPacketHardResetServerV2(session, remote if ids else None, ids, rng.getrandbits(32))
    return bytes(packet.compose())


def make_openvpn_fixed_key_id(rng):
    """The same packets with a non-zero key id (the low three bits of the first octet; the state after a key
    renegotiation), which the library never composes: set here as the protocol description says."""
    packet = bytearray(make_openvpn_fixed(rng))
    packet[0] = (packet[0] & 0xf8) | rng.randrange(1, 8)
    return bytes(packet)


def make_ldap_request(rng):  # pylint: disable=unused-argument
    from cryptoparser.tls.ldap import LDAPExtendedRequestStartTLS
    return bytes(LDAPExtendedRequestStartTLS().compose())


def make_ldap_response(rng):
    from cryptoparser.tls.ldap import LDAPExtendedResponseStartTLS, LDAPResultCode
    return bytes(LDAPExtendedResponseStartTLS(rng.choice(list(LDAPResultCode))).compose())


def _ber_reencode(data, rng, indefinite=False, depth=0):
    """Re-encode one DER TLV (recursively for constructed types) with other valid BER length forms:
    non-minimal long-form lengths (0x81.., 0x82.., 0x84..) and, on request, the indefinite form."""
    tag = data[0]
    first = data[1]
    if first < 0x80:
        header, length = 2, first
    else:
        count = first & 0x7f
        header, length = 2 + count, int.from_bytes(data[2:2 + count], 'big')
    content = data[header:header + length]
    rest = data[header + length:]
    if tag & 0x20 and depth < 4:      # constructed: re-encode the members too
        members = b''
        inner = content
        while inner:
            one, inner = _ber_reencode(inner, rng, indefinite, depth + 1)
            members += one
        content = members
    if indefinite and tag & 0x20 and rng.random() < 0.6:
        return bytes((tag, 0x80)) + content + b'\x00\x00', rest
    form = rng.choice((0, 0, 1, 2, 4)) if len(content) < 0x80 else rng.choice((1, 2, 4))
    if len(content) >= 0x100 and form == 1:
        form = 2
    if form == 0:
        encoded = bytes((tag, len(content)))
    else:
        encoded = bytes((tag, 0x80 | form)) + len(content).to_bytes(form, 'big')
    return encoded + content, rest


def make_ldap_ber(indefinite=False):
    def make(rng):
        der = make_ldap_response(rng) if rng.random() < 0.6 else make_ldap_request(rng)
        encoded, rest = _ber_reencode(der, rng, indefinite)
        assert not rest
        return encoded
    return make


def make_pg_sslrequest(rng):  # pylint: disable=unused-argument
    from cryptoparser.tls.postgresql import SslRequest
    return bytes(SslRequest().compose())


def make_pg_sync(rng):  # pylint: disable=unused-argument
    from cryptoparser.tls.postgresql import Sync
    return bytes(Sync().compose())


def make_ssh_banner(rng):
    from cryptoparser.ssh.subprotocol import SshProtocolMessage
    from cryptoparser.ssh.version import SshProtocolVersion, SshVersion, SshSoftwareVersionUnparsed
    if pools().banners and rng.random() < 0.5:
        return rng.choice(pools().banners)
    software = rng.choice(('OpenSSH_8.9p1', 'dropbear_2020.81', 'libssh_0.9.6', 'x', 'Cisco-1.25', 'mod_sftp'))
    comment = rng.choice((None, 'Ubuntu-3ubuntu0.1', 'a b c', ''))
    message = SshProtocolMessage(
        SshProtocolVersion(rng.choice(list(SshVersion)), rng.choice((0, 0, 99))),
        SshSoftwareVersionUnparsed(software), comment)
    return bytes(message.compose())


class Channel(object):
    def __init__(self, name, cls_path, framer, make, in_c04=True, spec_sender=False, single_unit=False):
        self.name = name
        # single_unit: a datagram format - one unit per delivery, never coalesced into a stream
        self.single_unit = single_unit
        self.cls_path = cls_path
        self.framer = framer
        self._make = make
        self.in_c04 = in_c04
        # spec_sender: the framing is written from the protocol specification around a library-composed
        # message, so the unit is valid by construction and is NOT filtered through the library's own parser
        self.spec_sender = spec_sender

    def make(self, rng, discards=None):
        """One framing unit composed by the library *and accepted whole by its own parser*.
        A composed unit the parser does not take back is a compose/parse round-trip (C01-class)
        discrepancy: it is counted and not sent."""
        from simverif import core
        cls = core.get_class(self.cls_path)
        if self.spec_sender:
            return self._make(rng)
        try:
            raw = self._make(rng)
        except Exception as exc:  # pylint: disable=broad-except
            raise SenderRejected(self.name, ['construct/compose: ' + type(exc).__name__], None)
        try:
            cls.parse_exact_size(raw)
        except Exception as exc:  # pylint: disable=broad-except
            if discards is not None:
                discards.append(type(exc).__name__)
            raise SenderRejected(self.name, [type(exc).__name__], raw)
        return raw


P_ = 'cryptoparser.'
CHANNELS = [
    Channel('tls_record', P_ + 'tls.record.TlsRecord', 'tls_record', make_tls_record),
    Channel('tls_handshake', P_ + 'tls.subprotocol.TlsHandshakeMessageVariant', 'tls_handshake', make_tls_handshake),
    Channel('ssl2_record', P_ + 'tls.record.SslRecord', 'ssl2_record', make_ssl2_record),
    Channel('ssl2_record_long_header', P_ + 'tls.record.SslRecord', 'ssl2_record', make_ssl2_record_long_header,
            spec_sender=True),
    Channel('ssh_init', P_ + 'ssh.record.SshRecordInit', 'ssh_packet', make_ssh_record('init')),
    Channel('ssh_kexdh', P_ + 'ssh.record.SshRecordKexDH', 'ssh_packet', make_ssh_record('dh')),
    Channel('ssh_kexdhgroup', P_ + 'ssh.record.SshRecordKexDHGroup', 'ssh_packet', make_ssh_record('gex')),
    Channel('mysql', P_ + 'tls.mysql.MySQLRecord', 'mysql', make_mysql),
    Channel('tpkt', P_ + 'tls.rdp.TPKT', 'tpkt', make_tpkt),
    Channel('openvpn_tcp', P_ + 'tls.openvpn.OpenVpnPacketWrapperTcp', 'openvpn_tcp', make_openvpn_tcp),
    Channel('openvpn_packet', P_ + 'tls.openvpn.OpenVpnPacketVariant', None, make_openvpn_fixed, single_unit=True),
    Channel('openvpn_packet_key_id', P_ + 'tls.openvpn.OpenVpnPacketVariant', None, make_openvpn_fixed_key_id,
            single_unit=True, spec_sender=True),
    Channel('ldap_request', P_ + 'tls.ldap.LDAPExtendedRequestStartTLS', 'ldap', make_ldap_request),
    Channel('ldap_response', P_ + 'tls.ldap.LDAPExtendedResponseStartTLS', 'ldap', make_ldap_response),
    Channel('ldap_response_ber_long_lengths', P_ + 'tls.ldap.LDAPExtendedResponseStartTLS', 'ldap',
            lambda rng: _ber_reencode(make_ldap_response(rng), rng)[0], spec_sender=True),
    Channel('pg_sslrequest', P_ + 'tls.postgresql.SslRequest', 'pg_sslrequest', make_pg_sslrequest),
    Channel('pg_sync', P_ + 'tls.postgresql.Sync', 'pg_sync', make_pg_sync),
    Channel('ssh_banner', P_ + 'ssh.subprotocol.SshProtocolMessage', 'ssh_banner', make_ssh_banner, in_c04=False),
]
CHANNEL_BY_NAME = {channel.name: channel for channel in CHANNELS}
STREAM_CHANNELS = [channel for channel in CHANNELS if not channel.single_unit]
