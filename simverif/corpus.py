# -*- coding: utf-8 -*-
"""Committed seed corpus: class path -> accepted ('ok') and rejected ('bad') inputs harvested
once from the repo's own tests (tools/harvest_plugin.py).  Entries a modified tree no longer
accepts simply count as hostile inputs."""

import json
import os

from simverif import core

_PATH = os.path.join(core.VERIF_DIR, 'corpus', 'seeds.json')
_DATA = None
_CLASSES = {}
_OBJECTS = {}


def data():
    global _DATA  # pylint: disable=global-statement
    if _DATA is None:
        with open(_PATH) as handle:
            _DATA = json.load(handle)
        _add_classes_without_seeds(_DATA)
    return _DATA


def _add_classes_without_seeds(table):
    """Leaf parsable classes the repo's tests never parse directly get borrowed inputs (seeds of other classes of
    the same module, treated as hostile 'bad' inputs) so that their entry points are exercised too."""
    try:
        from cryptoparser.common.parse import ParsableBaseNoABC
    except ImportError:  # pragma: no cover
        return

    def subclasses(cls):
        for sub in cls.__subclasses__():
            yield sub
            for deeper in subclasses(sub):
                yield deeper

    by_module = {}
    for path in sorted(table):
        module = path.rsplit('.', 1)[0]
        by_module.setdefault(module, [])
        for hexdata in table[path].get('ok', [])[:2]:
            if len(by_module[module]) < 40 and len(hexdata) <= 600:
                by_module[module].append(hexdata)
    for cls in sorted(set(subclasses(ParsableBaseNoABC)), key=core.class_path):
        path = core.class_path(cls)
        if path in table or not cls.__module__.startswith('cryptoparser.') or cls.__subclasses__():
            continue
        if cls.__module__ == 'cryptoparser.common.base' or cls.__name__.endswith('Base'):
            continue
        borrowed = by_module.get(cls.__module__, [])
        if borrowed:
            table[path] = {'ok': [], 'bad': list(borrowed), 'borrowed': True}


_FOCUS = None       # set (in a forked child only) to restrict generators to some classes: see core.RunSeq
_PATHS = None


def class_paths():
    """Sorted class paths that still resolve to a class in the tree under test."""
    global _PATHS  # pylint: disable=global-statement
    if _PATHS is None:
        _PATHS = [path for path in sorted(data()) if resolve(path) is not None]
    if _FOCUS:
        focused = [path for path in _PATHS if path in _FOCUS]
        if focused:
            return focused
    return list(_PATHS)


def resolve(path):
    if path not in _CLASSES:
        try:
            cls = core.get_class(path)
            if not hasattr(cls, 'parse_immutable'):
                cls = None
        except Exception:  # class removed/renamed in the tree under test
            cls = None
        _CLASSES[path] = cls
    return _CLASSES[path]


def accepted(path):
    return [bytes.fromhex(h) for h in data().get(path, {}).get('ok', [])]


def rejected(path):
    return [bytes.fromhex(h) for h in data().get(path, {}).get('bad', [])]


def objects(path):
    """(bytes, object) for every 'ok' seed the current tree still accepts."""
    if path not in _OBJECTS:
        cls = resolve(path)
        out = []
        if cls is not None:
            for raw in accepted(path):
                try:
                    obj, _ = cls.parse_immutable(raw)
                except Exception:  # no longer accepted
                    continue
                out.append((raw, obj))
        _OBJECTS[path] = out
    return _OBJECTS[path]


def composed(paths):
    """compose() of every accepted seed of the given classes (skipping those that cannot compose)."""
    out = []
    for path in paths:
        for _, obj in objects(path):
            try:
                out.append(bytes(obj.compose()))
            except Exception:  # not composable standalone
                continue
    return out


_VARIANTS = {}


def variants(path, per_seed=3):
    """More valid inputs per class than the tests contain: every accepted seed is parsed, one to three public
    fields are edited the way a caller would (another enum member, a toggled flag, a nearby integer, longer
    bytes), the object is composed, and the bytes are kept when the class's own parser accepts them whole.
    Deterministic (seeded by class path and seed index).  Computed in a forked child: editing objects may touch
    shared default objects (a known defect of the library), which must not leak into the simulator process."""
    if _NO_NESTED_VARIANTS:
        return []       # inside the child that derives variants: item pools are built from committed seeds only
    if path not in _VARIANTS:
        _VARIANTS[path] = _with_committed(path, core.call_isolated(_compute_variants, path, per_seed) if objects(path) else [])
    return _VARIANTS[path]


_COMMITTED_VARIANTS = None


def _with_committed(path, derived):
    """The variants derived on the tree under test plus those committed in corpus/variants.json (derived once on the
    pinned tree, so that a change in a compose() cannot hide the very inputs that would expose it); committed ones
    only as far as the tree under test still accepts them."""
    global _COMMITTED_VARIANTS  # pylint: disable=global-statement
    if _COMMITTED_VARIANTS is None:
        try:
            with open(os.path.join(core.VERIF_DIR, 'corpus', 'variants.json')) as handle:
                _COMMITTED_VARIANTS = json.load(handle)
        except OSError:
            _COMMITTED_VARIANTS = {}
    cls = resolve(path)
    out = list(derived)
    for hexdata in _COMMITTED_VARIANTS.get(path, ()):
        raw = bytes.fromhex(hexdata)
        if raw in out or cls is None:
            continue
        try:
            cls.parse_exact_size(raw)
        except Exception:  # no longer accepted  # pylint: disable=broad-except
            continue
        out.append(raw)
    return out


_NO_NESTED_VARIANTS = False


def _variants_task(path):
    # in a child of the pool worker: the derivation edits objects (and with them the known shared Set-Cookie defaults),
    # which must not carry over to the next class this worker derives
    return path, core.call_isolated(_compute_variants, path, 3)


def warm_variants():
    """Derive the variants of every class at once, on a fork pool (the children are thrown away, so whatever the
    derivation does to process-global state stays out of this process)."""
    if _NO_NESTED_VARIANTS:
        return
    todo = [path for path in class_paths() if path not in _VARIANTS]
    for path in list(todo):
        if not objects(path):
            _VARIANTS[path] = _with_committed(path, [])
            todo.remove(path)
    if len(todo) < 8:
        return
    import multiprocessing
    from concurrent.futures import ProcessPoolExecutor
    with ProcessPoolExecutor(max_workers=core.jobs(), mp_context=multiprocessing.get_context('fork')) as pool:
        for path, found in pool.map(_variants_task, todo, chunksize=4):
            _VARIANTS[path] = _with_committed(path, found)


def _compute_variants(path, per_seed):
    global _NO_NESTED_VARIANTS  # pylint: disable=global-statement
    _NO_NESTED_VARIANTS = True
    import hashlib
    import random
    from simverif.props import c13
    cls = resolve(path)
    out = []
    if cls is None:
        return out
    for idx, (raw, _) in enumerate(objects(path)):
        for number in range(per_seed):
            seed = int.from_bytes(hashlib.sha256(('%s:%d:%d' % (path, idx, number)).encode()).digest()[:8], 'big')
            rng = random.Random(seed)
            try:
                obj = cls.parse_immutable(raw)[0]
                edited = False
                for _ in range(rng.randrange(1, 4)):
                    edited = bool(c13.edit_field(obj, rng)) or edited
                if not edited:
                    continue
                data = bytes(obj.compose())
                if data == raw or len(data) > 70000:
                    continue
                cls.parse_exact_size(data)
            except Exception:  # the edited object is not composable / not accepted back  # pylint: disable=broad-except
                continue
            if data not in out:
                out.append(data)
        # every variable-length field (bytes, text, list, vector) of the message emptied, one at a time: the
        # smallest form of the message a peer can send
        for data in _emptied_fields(cls, raw):
            if data not in out and data != raw:
                out.append(data)
        # every optional field that is unset given a value, one at a time
        for data in _filled_optionals(cls, raw):
            if data not in out and data != raw:
                out.append(data)
        # inputs that embed one of the repo's test certificates: the same input with each of the other certificates
        for data in _other_certificates(raw):
            try:
                cls.parse_exact_size(data)
            except Exception:  # pylint: disable=broad-except
                continue
            if data not in out:
                out.append(data)
        # text inputs carrying a date: the same input with the date expressed in another zone
        from simverif import wirefault
        for data in wirefault.date_zone_variants(raw):
            try:
                cls.parse_exact_size(data)
            except Exception:  # this spelling of the zone is not accepted  # pylint: disable=broad-except
                continue
            if data not in out:
                out.append(data)
    return out


_CERTIFICATES = None


def test_certificates():
    """DER of every certificate among the repo's own test data (test/common/certs/*.pem, *.crt)."""
    global _CERTIFICATES  # pylint: disable=global-statement
    if _CERTIFICATES is None:
        import base64
        import glob
        import re
        found = []
        for name in sorted(glob.glob(os.path.join(core.REPO, 'test', 'common', 'certs', '*'))):
            try:
                with open(name, 'rb') as handle:
                    blob = handle.read()
            except OSError:
                continue
            for match in re.finditer(rb'-----BEGIN CERTIFICATE-----(.*?)-----END CERTIFICATE-----', blob, re.S):
                try:
                    der = base64.b64decode(match.group(1))
                except ValueError:
                    continue
                if der[:1] == b'\x30' and der not in found:
                    found.append(der)
        _CERTIFICATES = found
    return _CERTIFICATES


def _other_certificates(raw):
    out = []
    for der in test_certificates():
        at = raw.find(der)
        if at < 0:
            continue
        for other in test_certificates():
            if other == der:
                continue
            data = bytearray(raw[:at] + other + raw[at + len(der):])
            delta = len(other) - len(der)
            # every length field in front of the certificate that covers it is kept consistent
            for size in (4, 3, 2):
                for pos in range(0, at - size + 1):
                    value = int.from_bytes(raw[pos:pos + size], 'big')
                    if value >= len(der) and at + len(der) <= pos + size + value <= len(raw) and \
                            0 <= value + delta < (1 << (8 * size)):
                        data[pos:pos + size] = (value + delta).to_bytes(size, 'big')
            out.append(bytes(data))
        break
    return out


def _filled_optionals(cls, raw, limit=6):
    import attr
    import datetime
    from simverif.props import c13
    out = []
    try:
        fields = [f for f in attr.fields(type(cls.parse_immutable(raw)[0])) if not f.name.startswith('_')]
    except Exception:  # not an attrs class  # pylint: disable=broad-except
        return out
    for field in fields:
        if len(out) >= limit:
            break
        try:
            obj = cls.parse_immutable(raw)[0]
            if getattr(obj, field.name) is not None:
                continue
            declared = c13._declared_type(field.validator)  # pylint: disable=protected-access
            if declared is datetime.datetime:
                value = datetime.datetime(2030, 1, 2, 3, 4, 5, tzinfo=datetime.timezone.utc)
            elif declared in (int, str, bytes):
                value = {int: 1, str: 'x', bytes: b'x'}[declared]
            else:
                continue
            setattr(obj, field.name, value)
            data = bytes(obj.compose())
            cls.parse_exact_size(data)
        except Exception:  # pylint: disable=broad-except
            continue
        out.append(data)
    return out


def _emptied_fields(cls, raw, limit=8):
    import attr
    out = []
    try:
        names = [f.name for f in attr.fields(type(cls.parse_immutable(raw)[0])) if not f.name.startswith('_')]
    except Exception:  # not an attrs class  # pylint: disable=broad-except
        return out
    for name in names:
        if len(out) >= limit:
            break
        try:
            obj = cls.parse_immutable(raw)[0]
            value = getattr(obj, name)
            if isinstance(value, (bytes, bytearray, str)) and len(value):
                setattr(obj, name, type(value)())
            elif hasattr(value, '__delitem__') and hasattr(value, '__len__') and len(value):
                del value[:]
            else:
                continue
            data = bytes(obj.compose())
            cls.parse_exact_size(data)
        except Exception:  # the emptied message cannot be composed / is not accepted  # pylint: disable=broad-except
            continue
        out.append(data)
    return out


def accepted_plus(path):
    """Committed accepted seeds plus the derived variants."""
    return accepted(path) + variants(path)
