# -*- coding: utf-8 -*-
"""wiresim: a sender (real compose()), a transport the simulator owns, a reader loop around
the real parse_* entry points.  This module executes explicit schedule documents; it never
draws random numbers."""

import linecache
import os
import traceback

from simverif import core
from simverif.canon import canon
from simverif import framer as framer_mod

_EXC = None


def exc_classes():
    """(NotEnoughData, TooMuchData, InvalidValue, InvalidType, InvalidDataLength)"""
    global _EXC  # pylint: disable=global-statement
    if _EXC is None:
        from cryptoparser.common.exception import NotEnoughData, TooMuchData, InvalidType, InvalidDataLength
        from cryptodatahub.common.exception import InvalidValue
        _EXC = (NotEnoughData, TooMuchData, InvalidValue, InvalidType, InvalidDataLength)
    return _EXC


def classify(exc):
    """'ned' | 'tmd' | 'value' | 'type' | 'foreign'.  Exact documented families only; a bare
    InvalidDataLength or any other exception is foreign."""
    ned, tmd, inval, intype, _ = exc_classes()
    if isinstance(exc, ned):
        return 'ned'
    if isinstance(exc, tmd):
        return 'tmd'
    if isinstance(exc, inval):
        return 'value'
    if isinstance(exc, intype):
        return 'type'
    return 'foreign'


def leak_signature(prop, exc):
    """Signature of a foreign exception: innermost frame inside the repo (line text, not number)."""
    frames = traceback.extract_tb(exc.__traceback__)
    where = None
    for frame in frames:
        filename = os.path.realpath(frame.filename)
        if filename.startswith(core.REPO_PKG_PREFIX):
            where = (filename[len(core.REPO_PKG_PREFIX):], frame.name,
                     (frame.line or linecache.getline(frame.filename, frame.lineno)).strip())
    if where is None:
        where = ('<outside repo>', frames[-1].name if frames else '?', '')
    return (prop, 'leak', type(exc).__name__) + where


# --------------------------------------------------------------------------------------
# transport faults
# --------------------------------------------------------------------------------------

FAULT_KINDS = ('flip', 'set', 'lenfield', 'trunc', 'drop', 'dup', 'swap', 'insert', 'splice', 'token', 'name', 'fill', 'const', 'pair')


def apply_faults(stream, faults, res=None):
    """Apply transit faults in order; returns the faulted byte string.  A fault counts as
    fired only when it changed the stream."""
    data = bytearray(stream)
    for fault in faults:
        kind = fault['k']
        before = bytes(data)
        at = fault.get('at', 0)
        if kind == 'flip':
            if data:
                data[at % len(data)] ^= 1 << (fault.get('bit', 0) % 8)
        elif kind == 'set':
            if data:
                data[at % len(data)] = fault['val'] & 0xff
        elif kind == 'lenfield':
            size = fault['size']
            if at + size <= len(data):
                value = fault['val'] % (1 << (8 * size))
                data[at:at + size] = value.to_bytes(size, 'little' if fault.get('le') else 'big')
        elif kind == 'trunc':
            del data[min(at, len(data)):]
        elif kind in ('drop', 'splice'):
            del data[at:at + fault['n']]
        elif kind == 'dup':
            data[at:at] = data[at:at + fault['n']]
        elif kind == 'swap':
            n, m = fault['n'], fault['m']
            if at + n + m <= len(data):
                data[at:at + n + m] = data[at + n:at + n + m] + data[at:at + n]
        elif kind == 'insert':
            data[min(at, len(data)):min(at, len(data))] = bytes.fromhex(fault['hex'])
        elif kind == 'token':
            # a value of the text grammar replaced by another well-formed token (up to the next delimiter or the end)
            end = len(data) if fault.get('end') is None else min(len(data), fault['end'])
            data[min(at, len(data)):end] = bytes.fromhex(fault['hex'])
        else:
            raise core.HarnessError('unknown fault kind %r' % kind)
        if res is not None and bytes(data) != before:
            res.stats['fault.' + kind] += 1
    return bytes(data)


# --------------------------------------------------------------------------------------
# one reader layer
# --------------------------------------------------------------------------------------

class Layer(object):
    """A reader for one framing layer: owns a bytearray, calls cls.parse_mutable on it.

    truth: list of true unit lengths (fault-free runs) or None.
    """

    def __init__(self, name, cls, policy, res, prop, truth=None, framer=None, clock=None):
        self.name = name
        self.cls = cls
        self.policy = policy            # 'strict' | 'eager'
        self.res = res
        self.prop = prop
        self.truth = truth
        self.framer = framer
        self.clock = clock
        self.buf = bytearray()
        self.need = 0
        self.since = 0
        self.delivered = []
        self.dead = False               # reader gave up (rejected input / violation)
        self.tried_empty = -1

    # -- helpers -----------------------------------------------------------------------

    def _current_len(self):
        idx = len(self.delivered)
        if self.truth is None or idx >= len(self.truth):
            return None
        return self.truth[idx]

    def _call(self, func, arg):
        if self.clock is not None:
            return self.clock.call(func, arg)
        return func(arg)

    def feed(self, data, eof=False, on_step=None):
        """Deliver bytes; run parse attempts as the policy dictates.  Returns newly delivered objects."""
        self.buf += data
        self.since += len(data)
        if self.dead:
            return []
        if self.policy == 'strict' and self.since < self.need and not eof:
            self.res.stats['reader.blocked'] += 1
            return []
        out = []
        while not self.dead:
            if not self.buf:
                # an empty buffer is a (proper) prefix of the next unit: ask once per unit
                idx = len(self.delivered)
                if self.truth is None or idx >= len(self.truth) or self.tried_empty == idx or self.policy != 'eager':
                    break
                self.tried_empty = idx
            status, obj = self.attempt(on_step)
            if status == 'ok':
                out.append(obj)
                continue
            break
        return out

    def attempt(self, on_step=None):  # pylint: disable=too-many-branches,too-many-statements
        """One parse_mutable call with the oracles of the owning property."""
        res = self.res
        have = len(self.buf)
        snapshot = bytes(self.buf)
        unit_len = self._current_len()
        try:
            obj = self._call(self.cls.parse_mutable, self.buf)
        except BaseException as exc:  # pylint: disable=broad-except
            if isinstance(exc, (core.RunTimeout, KeyboardInterrupt, SystemExit, core.HarnessError)):
                raise
            kind = classify(exc)
            if on_step is not None:
                on_step(self, 'fail', snapshot, exc, None, None)
            if kind == 'ned':
                k = exc.bytes_needed
                res.event(self.name, 'ned', have, k)
                self.need = k if isinstance(k, int) and not isinstance(k, bool) else 0
                self.since = 0
                res.stats['reader.ned'] += 1
                if unit_len is not None:
                    missing = unit_len - have
                    if missing <= 0:
                        res.violation((self.prop, 'ned-on-complete', self.cls.__name__), 'complete record rejected',
                                      'buffer holds %d bytes, record is %d bytes, yet NotEnoughData(%r)' % (have, unit_len, k))
                        self.dead = True
                    elif not (isinstance(k, int) and not isinstance(k, bool) and 1 <= k <= missing):
                        clause = 'asks-too-much' if isinstance(k, int) and k > missing else 'no-progress'
                        res.violation((self.prop, clause, self.cls.__name__), 'missing count out of [1, really missing]',
                                      'prefix of %d/%d bytes: bytes_needed=%r but %d bytes are really missing' % (
                                          have, unit_len, k, missing))
                        self.dead = True
                    else:
                        if missing == 1:
                            res.stats['probe.blocked_one_byte_missing'] += 1
                        if k == missing:
                            res.stats['reader.ned_exact'] += 1
                return 'ned', None
            res.event(self.name, 'err', have, kind, type(exc).__name__)
            res.stats['reader.reject.' + kind] += 1
            if unit_len is not None:
                # fault-free: nothing but not-enough-data may happen to a prefix or a whole record
                what = 'prefix-rejected' if have < unit_len else 'record-rejected'
                res.violation((self.prop, what, self.cls.__name__, type(exc).__name__),
                              'valid data rejected with another error',
                              '%d/%d bytes of a valid record gave %s: %s' % (have, unit_len, type(exc).__name__, exc))
            self.dead = True
            return 'err', exc
        n = len(snapshot) - len(self.buf)
        res.event(self.name, 'ok', have, n, repr(canon(obj)) if self.prop != 'C19' else None)
        res.stats['reader.delivered'] += 1
        if on_step is not None:
            on_step(self, 'ok', snapshot, None, obj, n)
        if unit_len is not None:
            if have < unit_len:
                res.violation((self.prop, 'accepted-prefix', self.cls.__name__), 'proper prefix accepted as a record',
                              'only %d of %d bytes present, parse succeeded consuming %d' % (have, unit_len, n))
                self.dead = True
            elif n != unit_len:
                res.violation((self.prop, 'consumed-wrong-length', self.cls.__name__),
                              'success must consume exactly one record',
                              'record is %d bytes, parse consumed %d (buffer held %d)' % (unit_len, n, have))
                self.dead = True
            if n == have:
                res.stats['probe.cut_on_boundary'] += 1
        elif n <= 0:
            # no truth (faulty run): a reader that consumed nothing would spin forever
            self.dead = True
        self.delivered.append(obj)
        self.need = 0
        self.since = 0
        return 'ok', obj


def chunks_from_cuts(total, cuts):
    points = [0] + sorted(set(c for c in cuts if 0 < c < total)) + [total]
    return list(zip(points, points[1:]))


def cut_buckets(channel_framer, bounds, cuts):
    """Bucket cut positions per record: header / length-field / body / boundary."""
    buckets = []
    starts = [0] + bounds[:-1]
    lf = framer_mod.LENGTH_FIELD.get(channel_framer)
    hdr = framer_mod.HEADER_SIZE.get(channel_framer, 0)
    for cut in cuts:
        for idx, (start, end) in enumerate(zip(starts, bounds)):
            if start < cut <= end:
                rel = cut - start
                if cut == end:
                    kind = 'boundary'
                elif lf and lf[0] < rel < lf[0] + lf[1]:
                    kind = 'lenfield'
                elif rel < hdr:
                    kind = 'header'
                else:
                    kind = 'body'
                buckets.append((min(idx, 3), kind))
                break
    return tuple(sorted(set(buckets)))
