# -*- coding: utf-8 -*-
"""Seeded generation of transit-fault lists (schedule material for C02 / C03 / C19).

Uniform mutation mostly revisits the same states, so faults are biased to length and count
fields, text separators, the byte after a length prefix and high-bit bytes in text."""

from simverif import framer as framer_mod

INTERESTING_BYTES = (0x00, 0x01, 0x7f, 0x80, 0xff, 0x0a, 0x0d, 0x20, 0x2c, 0x3b, 0x3d, 0x22)
INTERESTING_LEN = (0, 1, 2, 3, 4, 5, 0x7f, 0x80, 0xff, 0x100, 0x7fff, 0x8000, 0xffff, 0x10000, 0xffffff, 0x7fffffff,
                   0x80000000, 0xffffffff)


def length_field_candidates(data, limit=4096):
    """Offsets (at, size, little_endian) of integers that equal the number of bytes following
    them, or following them up to a later point: likely length / count fields."""
    out = []
    n = len(data)
    if n > limit:
        return out
    for at in range(n):
        for size in (1, 2, 3, 4):
            if at + size > n:
                break
            rest = n - at - size
            be = int.from_bytes(data[at:at + size], 'big')
            if be and (be == rest or (be < rest and size > 1 and be > 0 and at < 64)):
                out.append((at, size, False))
            elif size > 1:
                le = int.from_bytes(data[at:at + size], 'little')
                if le and le == rest:
                    out.append((at, size, True))
    return out[:64]


def gen_faults(rng, data, bounds=None, framer_name=None, max_faults=3, kinds=None):
    """A list of fault dicts for the byte string `data` (a stream of records or one datagram)."""
    n = len(data)
    if n == 0:
        return [{'k': 'insert', 'at': 0, 'hex': bytes(rng.getrandbits(8) for _ in range(rng.randrange(1, 9))).hex()}]
    enabled = kinds or ('flip', 'set', 'lenfield', 'trunc', 'drop', 'dup', 'swap', 'insert', 'splice')
    count = rng.choice((1, 1, 1, 2, 2, 3)) if max_faults >= 3 else rng.randrange(1, max_faults + 1)
    starts = [0] + list(bounds[:-1]) if bounds else [0]
    candidates = None
    faults = []
    for _ in range(count):
        kind = rng.choice(enabled)
        if kind == 'flip':
            faults.append({'k': 'flip', 'at': _pos(rng, n, starts), 'bit': rng.randrange(8)})
        elif kind == 'set':
            separators = [i for i in range(n - 1) if data[i] in b'.,;:=/-@ ' and data[i + 1] not in b'.,;:=/-@ ']
            if separators and rng.random() < 0.25:
                # a doubled separator (empty label / empty element) that keeps every length field intact
                at = rng.choice(separators)
                faults.append({'k': 'set', 'at': at + 1, 'val': data[at]})
            else:
                faults.append({'k': 'set', 'at': _pos(rng, n, starts),
                               'val': rng.choice(INTERESTING_BYTES) if rng.random() < 0.7 else rng.getrandbits(8)})
        elif kind == 'lenfield':
            lf = framer_mod.LENGTH_FIELD.get(framer_name)
            if lf and rng.random() < 0.5:
                start = rng.choice(starts)
                at, size, le = start + lf[0], lf[1], framer_name == 'mysql'
            else:
                if candidates is None:
                    candidates = length_field_candidates(data)
                if candidates:
                    at, size, le = rng.choice(candidates)
                else:
                    at, size, le = rng.randrange(n), rng.choice((1, 2, 3, 4)), False
            if at + size > n:
                continue
            old = int.from_bytes(data[at:at + size], 'little' if le else 'big')
            roll = rng.random()
            if roll < 0.4:
                val = old + rng.choice((-2, -1, 1, 2, 3, 8))
            elif roll < 0.8:
                val = rng.choice(INTERESTING_LEN)
            else:
                val = rng.getrandbits(8 * size)
            faults.append({'k': 'lenfield', 'at': at, 'size': size, 'val': val % (1 << (8 * size)), 'le': bool(le)})
        elif kind == 'trunc':
            faults.append({'k': 'trunc', 'at': _pos(rng, n, starts)})
        elif kind == 'drop':
            at = _pos(rng, n, starts)
            faults.append({'k': 'drop', 'at': at, 'n': rng.choice((1, 1, 2, 4, 8, rng.randrange(1, 64)))})
        elif kind == 'dup':
            at = _pos(rng, n, starts)
            faults.append({'k': 'dup', 'at': at, 'n': rng.choice((1, 2, 4, 8, rng.randrange(1, 64)))})
        elif kind == 'swap':
            a = rng.choice((1, 2, 4, rng.randrange(1, 32)))
            b = rng.choice((1, 2, 4, rng.randrange(1, 32)))
            if n > a + b:
                faults.append({'k': 'swap', 'at': rng.randrange(0, n - a - b), 'n': a, 'm': b})
        elif kind == 'insert':
            size = rng.choice((1, 1, 2, 4, 16))
            if rng.random() < 0.5:
                junk = bytes(rng.choice(INTERESTING_BYTES) for _ in range(size))
            else:
                junk = bytes(rng.getrandbits(8) for _ in range(size))
            faults.append({'k': 'insert', 'at': _pos(rng, n + 1, starts), 'hex': junk.hex()})
        elif kind == 'splice':
            # tail of one record removed together with the head of the next
            if bounds and len(bounds) > 1:
                b = rng.choice(bounds[:-1])
                a = max(0, b - rng.randrange(1, 12))
                faults.append({'k': 'splice', 'at': a, 'n': (b - a) + rng.randrange(1, 12)})
            else:
                at = _pos(rng, n, starts)
                faults.append({'k': 'splice', 'at': at, 'n': rng.randrange(1, max(2, n // 2))})
    return faults


def _pos(rng, n, starts):
    """Position biased to the head of a record (headers, length fields) and to the tail."""
    roll = rng.random()
    if roll < 0.45:
        start = rng.choice(starts)
        return min(n - 1, start + rng.randrange(0, 12))
    if roll < 0.55:
        return max(0, n - 1 - rng.randrange(0, 4))
    return rng.randrange(n)


def text_faults(rng, data):
    """High-bit / separator faults for text-like inputs."""
    n = len(data)
    if not n:
        return []
    at = rng.randrange(n)
    return [{'k': 'set', 'at': at, 'val': rng.choice((0x80, 0xc3, 0xe9, 0xff, 0x00, 0x2e, 0x2d, 0x3a))}]


TOKENS = (
    b'0', b'1', b'-1', b'5', b'1.5', b'1e400', b'-0', b'NaN', b'Infinity', b'null', b'true', b'false', b'[]', b'{}', b'""',
    b'[1]', b'"a"', b'[null]', b'{"a": 1}', b'["report_to", "max_age"]', b'"report_to max_age"', b'{"max_age": {}}',
    b'{"report_to": 1, "max_age": "x"}', b'*', b"'none'", b"'self'", b'=', b'==', b';', b',', b' ', b'""""', b'a=b=c',
    b'9' * 40, b'9' * 5000, b'1' * 4301, b'0.' + b'9' * 5000, b'max-age=', b'max-age=-1', b'max-age=1e3', b'max-age="1"', b'v=', b'v=spf1', b'ip4:', b'ip4:1.2.3.4/33',
    b'ip6:::1/129', b'ip4:::1', b'ip6:1.2.3.4', b'a:/', b'mx://', b'%{', b'%{z}', b'exists:%', b'sha256-', b"'sha256-'",
    b"'nonce-'", b"'sha999-YQ=='", b'http://[', b'http://[::1', b'//', b':', b'::', b'\r\n', b'\r\n\r\n', b'\x00',
    b'{x}=y', b'{0}', b'{}', b'{{k}}=v', b'%s', b'%(a)s=1', b'a{b=c', b'}', b'\\', b'`x`', b'<b>', b'*x*', b'# h', b'a|b',
    b'k=\xc3\xa9', b'_=_', b'__class__=1', b'a b=c d',
    b'Fri, 31 Dec 9999 23:59:59 -0100', b'Sat, 01 Jan 0001 00:00:00 +0100', b'0001-01-01T00:00:00+01:00',
    b'Thu, 01 Jan 1970 00:00:00 -2400', b'Thu, 01 Jan 1970 00:00:00 +2359', b'9999-12-31T23:59:59-23:59', b'1 Jan 1 0:0:0 +9',
    b'Mon, 99 Foo 9999 99:99:99 GMT', b'Thu, 01 Jan 1970 00:00:00 +9999', b'99999999999999999999', b'1' + b'0' * 400,
)


_ENUM_TOKENS = None


def enum_tokens():
    """Every textual code of the library's string-coded enumerations (directive names, keywords, algorithm names):
    a dictionary for grammar-aware faults, so that e.g. a directive name the enum knows but no parser class handles
    is tried."""
    global _ENUM_TOKENS  # pylint: disable=global-statement
    if _ENUM_TOKENS is None:
        import enum
        import sys
        tokens = []
        for name in sorted(sys.modules):
            if not name.startswith('cryptoparser.'):
                continue
            module = sys.modules[name]
            for attr_name in sorted(vars(module)):
                obj = vars(module)[attr_name]
                if isinstance(obj, type) and issubclass(obj, enum.Enum) and obj.__module__ == name:
                    for member in obj:
                        code = getattr(member.value, 'code', None)
                        if isinstance(code, str) and 0 < len(code) <= 48:
                            try:
                                token = code.encode('ascii')
                            except UnicodeError:
                                continue
                            if token not in tokens:
                                tokens.append(token)
        _ENUM_TOKENS = tokens[:3000]
    return _ENUM_TOKENS


def is_text(data):
    return bool(data) and sum(1 for byte in data if 0x20 <= byte < 0x7f or byte in (0x0d, 0x0a, 0x09)) >= len(data) * 0.95


def token_faults(rng, data):
    """Grammar-aware replacement for text inputs: a whole value (from a delimiter to the next delimiter or to
    the end) is replaced by a well-formed token of another type."""
    starts = [0]
    for idx, byte in enumerate(data):
        if byte in b':=; ,' and idx + 1 < len(data):
            starts.append(idx + 1)
            if data[idx + 1:idx + 2] == b' ':
                starts.append(idx + 2)
    at = rng.choice(starts)
    end = None
    if rng.random() < 0.5:
        for idx in range(at, len(data)):
            if data[idx] in b';,\r\n' or (data[idx] == 0x20 and rng.random() < 0.3):
                end = idx
                break
    pool = enum_tokens()
    token = rng.choice(pool) if pool and rng.random() < 0.45 else rng.choice(TOKENS)
    if rng.random() < 0.2:
        token = token + b' ' + rng.choice(TOKENS + tuple(pool[:200]))
    return [{'k': 'token', 'at': at, 'end': end, 'hex': token.hex()}]


import re as _re

TYPED_PATTERNS = (
    ('date', _re.compile(rb'[A-Z][a-z]{2}, \d{1,2}[ -][A-Z][a-z]{2}[ -]\d{2,4} \d{2}:\d{2}:\d{2}(?: [A-Z]{3}| [+-]\d{4})?'),
     (b'Fri, 31 Dec 9999 23:59:59 -0100', b'Sat, 01 Jan 0001 00:00:00 +0100', b'0001-01-01T00:00:00+01:00',
      b'Thu, 01 Jan 1970 00:00:00 -2400', b'Thu, 01 Jan 1970 00:00:00 +2359', b'Wed, 21 Oct 2015 07:28:00 +0200',
      b'Wed, 21 Oct 2015 07:28:00 PST', b'9999-12-31T23:59:59-23:59', b'Mon, 99 Foo 9999 99:99:99 GMT', b'1 Jan 1 0:0:0 +9',
      b'Thu, 01 Jan 1970 00:00:00 GMT', b'31 Dec 99999 00:00:00 GMT', b'Tue, 19 Jan 2038 03:14:08 GMT', b'now')),
    ('number', _re.compile(rb'(?<![0-9A-Za-z.])\d+(?![0-9A-Za-z.])'),
     (b'0', b'-1', b'1.5', b'1e9', b'4294967296', b'18446744073709551616', b'9' * 5000, b'00000000001', b'0x10', b'')),
    ('url', _re.compile(rb'(?:https?|wss?|mailto):[^ ;,"\r\n]*'),
     (b'http://[', b'http://[::1', b'https://', b'http://a:b:c', b'http://a:99999999/', b'mailto:', b'//x', b'https://\xc3\xa9.example',
      b'http://' + b'a' * 300 + b'.example', b'https://a..b/', b'javascript:0')),
    ('quoted', _re.compile(rb'"[^"\r\n]*"'), (b'""', b'"', b'"\\"', b'"a"b"', b"'x'", b'"' + b'q' * 300 + b'"')),
    ('ipv4', _re.compile(rb'\d{1,3}\.\d{1,3}\.\d{1,3}\.\d{1,3}(?:/\d+)?'),
     (b'1.2.3', b'256.1.1.1', b'1.2.3.4/33', b'::1', b'1.2.3.4/-1', b'1.2.3.4.5', b'')),
    ('base64', _re.compile(rb'[A-Za-z0-9+/]{12,}={0,2}'), (b'A', b'AAAA', b'====', b'A===', b'!!!!', b'AAAAA')),
)


def typed_faults(rng, data):
    """Replace one value the input visibly carries (a date, a number, a URL, a quoted string, an address, a base64
    blob) with another well-formed or subtly broken value *of the same kind*."""
    spans = []
    for _, pattern, values in TYPED_PATTERNS:
        for match in pattern.finditer(data):
            spans.append((match.start(), match.end(), values))
            if len(spans) > 64:
                break
    if not spans:
        return token_faults(rng, data)
    start, end, values = rng.choice(spans)
    return [{'k': 'token', 'at': start, 'end': end, 'hex': rng.choice(values).hex()}]
