# -*- coding: utf-8 -*-
"""Seeded generation of transit-fault lists (schedule material for C02 / C03 / C19).

Uniform mutation mostly revisits the same states, so faults are biased to length and count
fields, text separators, the byte after a length prefix and high-bit bytes in text."""

from simverif import framer as framer_mod

INTERESTING_BYTES = (0x00, 0x01, 0x7f, 0x80, 0xff, 0x0a, 0x0d, 0x20, 0x2c, 0x3b, 0x3d, 0x22)
INTERESTING_LEN = (0, 1, 2, 3, 4, 5, 0x7f, 0x80, 0xff, 0x100, 0x7fff, 0x8000, 0xffff, 0x10000, 0xffffff, 0x7fffffff,
                   0x80000000, 0xffffffff)


def length_field_candidates(data, limit=4096):
    """Offsets (at, size, little_endian) of integers that equal the number of bytes following
    them, or following them up to a later point: likely length / count fields."""
    out = []
    n = len(data)
    if n > limit:
        return out
    for at in range(n):
        for size in (1, 2, 3, 4):
            if at + size > n:
                break
            rest = n - at - size
            be = int.from_bytes(data[at:at + size], 'big')
            if be and (be == rest or (be < rest and size > 1 and be > 0 and at < 64)):
                out.append((at, size, False))
            elif size > 1:
                le = int.from_bytes(data[at:at + size], 'little')
                if le and le == rest:
                    out.append((at, size, True))
    return out[:64]


def gen_faults(rng, data, bounds=None, framer_name=None, max_faults=3, kinds=None):
    """A list of fault dicts for the byte string `data` (a stream of records or one datagram)."""
    n = len(data)
    if n == 0:
        return [{'k': 'insert', 'at': 0, 'hex': bytes(rng.getrandbits(8) for _ in range(rng.randrange(1, 9))).hex()}]
    enabled = kinds or ('flip', 'set', 'lenfield', 'trunc', 'drop', 'dup', 'swap', 'insert', 'splice')
    count = rng.choice((1, 1, 1, 2, 2, 3)) if max_faults >= 3 else rng.randrange(1, max_faults + 1)
    starts = [0] + list(bounds[:-1]) if bounds else [0]
    candidates = None
    faults = []
    for _ in range(count):
        kind = rng.choice(enabled)
        if kind == 'flip':
            faults.append({'k': 'flip', 'at': _pos(rng, n, starts), 'bit': rng.randrange(8)})
        elif kind == 'set':
            faults.append({'k': 'set', 'at': _pos(rng, n, starts),
                           'val': rng.choice(INTERESTING_BYTES) if rng.random() < 0.7 else rng.getrandbits(8)})
        elif kind == 'lenfield':
            lf = framer_mod.LENGTH_FIELD.get(framer_name)
            if lf and rng.random() < 0.5:
                start = rng.choice(starts)
                at, size, le = start + lf[0], lf[1], framer_name == 'mysql'
            else:
                if candidates is None:
                    candidates = length_field_candidates(data)
                if candidates:
                    at, size, le = rng.choice(candidates)
                else:
                    at, size, le = rng.randrange(n), rng.choice((1, 2, 3, 4)), False
            if at + size > n:
                continue
            old = int.from_bytes(data[at:at + size], 'little' if le else 'big')
            roll = rng.random()
            if roll < 0.4:
                val = old + rng.choice((-2, -1, 1, 2, 3, 8))
            elif roll < 0.8:
                val = rng.choice(INTERESTING_LEN)
            else:
                val = rng.getrandbits(8 * size)
            faults.append({'k': 'lenfield', 'at': at, 'size': size, 'val': val % (1 << (8 * size)), 'le': bool(le)})
        elif kind == 'trunc':
            faults.append({'k': 'trunc', 'at': _pos(rng, n, starts)})
        elif kind == 'drop':
            at = _pos(rng, n, starts)
            faults.append({'k': 'drop', 'at': at, 'n': rng.choice((1, 1, 2, 4, 8, rng.randrange(1, 64)))})
        elif kind == 'dup':
            at = _pos(rng, n, starts)
            faults.append({'k': 'dup', 'at': at, 'n': rng.choice((1, 2, 4, 8, rng.randrange(1, 64)))})
        elif kind == 'swap':
            a = rng.choice((1, 2, 4, rng.randrange(1, 32)))
            b = rng.choice((1, 2, 4, rng.randrange(1, 32)))
            if n > a + b:
                faults.append({'k': 'swap', 'at': rng.randrange(0, n - a - b), 'n': a, 'm': b})
        elif kind == 'insert':
            size = rng.choice((1, 1, 2, 4, 16))
            if rng.random() < 0.5:
                junk = bytes(rng.choice(INTERESTING_BYTES) for _ in range(size))
            else:
                junk = bytes(rng.getrandbits(8) for _ in range(size))
            faults.append({'k': 'insert', 'at': _pos(rng, n + 1, starts), 'hex': junk.hex()})
        elif kind == 'splice':
            # tail of one record removed together with the head of the next
            if bounds and len(bounds) > 1:
                b = rng.choice(bounds[:-1])
                a = max(0, b - rng.randrange(1, 12))
                faults.append({'k': 'splice', 'at': a, 'n': (b - a) + rng.randrange(1, 12)})
            else:
                at = _pos(rng, n, starts)
                faults.append({'k': 'splice', 'at': at, 'n': rng.randrange(1, max(2, n // 2))})
    return faults


def _pos(rng, n, starts):
    """Position biased to the head of a record (headers, length fields) and to the tail."""
    roll = rng.random()
    if roll < 0.45:
        start = rng.choice(starts)
        return min(n - 1, start + rng.randrange(0, 12))
    if roll < 0.55:
        return max(0, n - 1 - rng.randrange(0, 4))
    return rng.randrange(n)


def text_faults(rng, data):
    """High-bit / separator faults for text-like inputs."""
    n = len(data)
    if not n:
        return []
    at = rng.randrange(n)
    return [{'k': 'set', 'at': at, 'val': rng.choice((0x80, 0xc3, 0xe9, 0xff, 0x00, 0x2e, 0x2d, 0x3a))}]
