# -*- coding: utf-8 -*-
"""Seeded generation of transit-fault lists (schedule material for C02 / C03 / C19).

Uniform mutation mostly revisits the same states, so faults are biased to length and count
fields, text separators, the byte after a length prefix and high-bit bytes in text."""

from simverif import framer as framer_mod

INTERESTING_BYTES = (0x00, 0x01, 0x7f, 0x80, 0xff, 0x0a, 0x0d, 0x20, 0x2c, 0x3b, 0x3d, 0x22)
INTERESTING_LEN = (0, 1, 2, 3, 4, 5, 0x7f, 0x80, 0xff, 0x100, 0x7fff, 0x8000, 0xffff, 0x10000, 0xffffff, 0x7fffffff,
                   0x80000000, 0xffffffff)


def length_field_candidates(data, limit=4096):
    """Offsets (at, size, little_endian) of integers that equal the number of bytes following
    them, or following them up to a later point: likely length / count fields."""
    out = []
    n = len(data)
    if n > limit:
        return out
    for at in range(n):
        for size in (1, 2, 3, 4):
            if at + size > n:
                break
            rest = n - at - size
            be = int.from_bytes(data[at:at + size], 'big')
            if be and (be == rest or (be < rest and size > 1 and be > 0 and at < 64)):
                out.append((at, size, False))
            elif size > 1:
                le = int.from_bytes(data[at:at + size], 'little')
                if le and le == rest:
                    out.append((at, size, True))
    return out[:64]


def gen_faults(rng, data, bounds=None, framer_name=None, max_faults=3, kinds=None):
    """A list of fault dicts for the byte string `data` (a stream of records or one datagram)."""
    n = len(data)
    if n == 0:
        return [{'k': 'insert', 'at': 0, 'hex': bytes(rng.getrandbits(8) for _ in range(rng.randrange(1, 9))).hex()}]
    enabled = kinds or ('flip', 'set', 'lenfield', 'trunc', 'drop', 'dup', 'swap', 'insert', 'splice', 'spanfill')
    count = rng.choice((1, 1, 1, 2, 2, 3)) if max_faults >= 3 else rng.randrange(1, max_faults + 1)
    starts = [0] + list(bounds[:-1]) if bounds else [0]
    candidates = None
    faults = []
    for _ in range(count):
        kind = rng.choice(enabled)
        if kind == 'flip':
            faults.append({'k': 'flip', 'at': _pos(rng, n, starts), 'bit': rng.randrange(8)})
        elif kind == 'set':
            separators = [i for i in range(n - 1) if data[i] in b'.,;:=/-@ ' and data[i + 1] not in b'.,;:=/-@ ']
            if separators and rng.random() < 0.25:
                # a doubled separator (empty label / empty element) that keeps every length field intact
                at = rng.choice(separators)
                faults.append({'k': 'set', 'at': at + 1, 'val': data[at]})
            else:
                faults.append({'k': 'set', 'at': _pos(rng, n, starts),
                               'val': rng.choice(INTERESTING_BYTES) if rng.random() < 0.7 else rng.getrandbits(8)})
        elif kind == 'lenfield':
            lf = framer_mod.LENGTH_FIELD.get(framer_name)
            if lf and rng.random() < 0.5:
                start = rng.choice(starts)
                at, size, le = start + lf[0], lf[1], framer_name == 'mysql'
            else:
                if candidates is None:
                    candidates = length_field_candidates(data)
                if candidates:
                    at, size, le = rng.choice(candidates)
                else:
                    at, size, le = rng.randrange(n), rng.choice((1, 2, 3, 4)), False
            if at + size > n:
                continue
            old = int.from_bytes(data[at:at + size], 'little' if le else 'big')
            roll = rng.random()
            if roll < 0.4:
                val = old + rng.choice((-2, -1, 1, 2, 3, 8))
            elif roll < 0.8:
                val = rng.choice(INTERESTING_LEN)
            else:
                val = rng.getrandbits(8 * size)
            faults.append({'k': 'lenfield', 'at': at, 'size': size, 'val': val % (1 << (8 * size)), 'le': bool(le)})
        elif kind == 'spanfill':
            # the content of one length-prefixed value replaced by text of another alphabet / by integer boundary
            # values, its length (and so every length field) unchanged
            spans = length_prefixed_spans(data)
            if spans:
                start, length = rng.choice(spans)
                name = rng.choice(sorted(TEXT_FILLS) + ['zero', 'ones'])
                fill = TEXT_FILLS[name](length) if name in TEXT_FILLS else (b'\x00' if name == 'zero' else b'\xff') * length
                faults.append({'k': 'token', 'at': start, 'end': start + length, 'hex': fill.hex()})
            else:
                faults.append({'k': 'set', 'at': _pos(rng, n, starts), 'val': rng.choice(INTERESTING_BYTES)})
        elif kind == 'trunc':
            faults.append({'k': 'trunc', 'at': _pos(rng, n, starts)})
        elif kind == 'drop':
            at = _pos(rng, n, starts)
            faults.append({'k': 'drop', 'at': at, 'n': rng.choice((1, 1, 2, 4, 8, rng.randrange(1, 64)))})
        elif kind == 'dup':
            at = _pos(rng, n, starts)
            faults.append({'k': 'dup', 'at': at, 'n': rng.choice((1, 2, 4, 8, rng.randrange(1, 64)))})
        elif kind == 'swap':
            a = rng.choice((1, 2, 4, rng.randrange(1, 32)))
            b = rng.choice((1, 2, 4, rng.randrange(1, 32)))
            if n > a + b:
                faults.append({'k': 'swap', 'at': rng.randrange(0, n - a - b), 'n': a, 'm': b})
        elif kind == 'insert':
            size = rng.choice((1, 1, 2, 4, 16))
            if rng.random() < 0.5:
                junk = bytes(rng.choice(INTERESTING_BYTES) for _ in range(size))
            else:
                junk = bytes(rng.getrandbits(8) for _ in range(size))
            faults.append({'k': 'insert', 'at': _pos(rng, n + 1, starts), 'hex': junk.hex()})
        elif kind == 'splice':
            # tail of one record removed together with the head of the next
            if bounds and len(bounds) > 1:
                b = rng.choice(bounds[:-1])
                a = max(0, b - rng.randrange(1, 12))
                faults.append({'k': 'splice', 'at': a, 'n': (b - a) + rng.randrange(1, 12)})
            else:
                at = _pos(rng, n, starts)
                faults.append({'k': 'splice', 'at': at, 'n': rng.randrange(1, max(2, n // 2))})
    return faults


def _pos(rng, n, starts):
    """Position biased to the head of a record (headers, length fields) and to the tail."""
    roll = rng.random()
    if roll < 0.45:
        start = rng.choice(starts)
        return min(n - 1, start + rng.randrange(0, 12))
    if roll < 0.55:
        return max(0, n - 1 - rng.randrange(0, 4))
    return rng.randrange(n)


def text_faults(rng, data):
    """High-bit / separator faults for text-like inputs."""
    n = len(data)
    if not n:
        return []
    at = rng.randrange(n)
    return [{'k': 'set', 'at': at, 'val': rng.choice((0x80, 0xc3, 0xe9, 0xff, 0x00, 0x2e, 0x2d, 0x3a))}]


TOKENS = (
    b'0', b'1', b'-1', b'5', b'1.5', b'1e400', b'-0', b'NaN', b'Infinity', b'null', b'true', b'false', b'[]', b'{}', b'""',
    b'[1]', b'"a"', b'[null]', b'{"a": 1}', b'["report_to", "max_age"]', b'"report_to max_age"', b'{"max_age": {}}',
    b'{"report_to": 1, "max_age": "x"}', b'*', b"'none'", b"'self'", b'=', b'==', b';', b',', b' ', b'""""', b'a=b=c',
    b'9' * 40, b'9' * 5000, b'1' * 4301, b'0.' + b'9' * 5000, b'max-age=', b'max-age=-1', b'max-age=1e3', b'max-age="1"', b'v=', b'v=spf1', b'ip4:', b'ip4:1.2.3.4/33',
    b'ip6:::1/129', b'ip4:::1', b'ip6:1.2.3.4', b'a:/', b'mx://', b'%{', b'%{z}', b'exists:%', b'sha256-', b"'sha256-'",
    b"'nonce-'", b"'sha999-YQ=='", b'http://[', b'http://[::1', b'//', b':', b'::', b'\r\n', b'\r\n\r\n', b'\x00',
    b'{x}=y', b'{0}', b'{}', b'{{k}}=v', b'%s', b'%(a)s=1', b'a{b=c', b'}', b'\\', b'`x`', b'<b>', b'*x*', b'# h', b'a|b',
    b'k=\xc3\xa9', b'_=_', b'__class__=1', b'a b=c d',
    b'Fri, 31 Dec 9999 23:59:59 -0100', b'Sat, 01 Jan 0001 00:00:00 +0100', b'0001-01-01T00:00:00+01:00',
    b'Thu, 01 Jan 1970 00:00:00 -2400', b'Thu, 01 Jan 1970 00:00:00 +2359', b'9999-12-31T23:59:59-23:59', b'1 Jan 1 0:0:0 +9',
    b'Mon, 99 Foo 9999 99:99:99 GMT', b'Thu, 01 Jan 1970 00:00:00 +9999', b'99999999999999999999', b'1' + b'0' * 400,
)


_ENUM_TOKENS = None


def enum_tokens():
    """Every textual code of the library's string-coded enumerations (directive names, keywords, algorithm names):
    a dictionary for grammar-aware faults, so that e.g. a directive name the enum knows but no parser class handles
    is tried."""
    global _ENUM_TOKENS  # pylint: disable=global-statement
    if _ENUM_TOKENS is None:
        import enum
        import sys
        tokens = []
        for name in sorted(sys.modules):
            if not name.startswith('cryptoparser.'):
                continue
            module = sys.modules[name]
            for attr_name in sorted(vars(module)):
                obj = vars(module)[attr_name]
                if isinstance(obj, type) and issubclass(obj, enum.Enum) and obj.__module__ == name:
                    for member in obj:
                        code = getattr(member.value, 'code', None)
                        if isinstance(code, str) and 0 < len(code) <= 48:
                            try:
                                token = code.encode('ascii')
                            except UnicodeError:
                                continue
                            if token not in tokens:
                                tokens.append(token)
        _ENUM_TOKENS = tokens[:3000]
    return _ENUM_TOKENS


TEXT_FILLS = {
    'utf8': lambda n: ('\u00e9' * (n // 2)).encode('utf-8') + b'a' * (n % 2),          # valid UTF-8, not ASCII
    'cjk': lambda n: ('\u4e2d' * (n // 3)).encode('utf-8') + b'a' * (n % 3),
    'high': lambda n: b'\xe9' * n,                                                      # not UTF-8
    'ctrl': lambda n: (b'\x00\x01\x1b\x7f' * n)[:n],
    'quote': lambda n: (b'"\\\'{}%s' * n)[:n],
    'lines': lambda n: (b'a\r\nb: ' * n)[:n],
    'star': lambda n: (b'* #:|`' * n)[:n],
    'ascii': lambda n: b'A' * n,
}


def length_prefixed_spans(data, limit=48):
    """[(start, length)] of plausible length-prefixed values: a 4-, 2- or 1-octet big-endian prefix holding exactly
    a length that fits in what follows (1-octet prefixes only from 4 octets of content on)."""
    out = []
    seen = set()
    for size, minimum in ((4, 1), (2, 2), (1, 4)):
        for at in range(0, len(data) - size):
            length = int.from_bytes(data[at:at + size], 'big')
            start = at + size
            if minimum <= length <= 600 and start + length <= len(data) and (start, length) not in seen:
                seen.add((start, length))
                out.append((start, length))
                if len(out) >= limit:
                    return out
    return out


_BYTE_CONSTANTS = None


def byte_constants():
    """Byte strings of 4..64 octets the library itself defines at module or class level (magic values such as the
    HelloRetryRequest random): values a parser may compare against and treat specially."""
    global _BYTE_CONSTANTS  # pylint: disable=global-statement
    if _BYTE_CONSTANTS is None:
        import sys
        found = []
        for name in sorted(sys.modules):
            if not name.startswith('cryptoparser.'):
                continue
            module = sys.modules[name]
            holders = [module] + [obj for _, obj in sorted(vars(module).items())
                                  if isinstance(obj, type) and obj.__module__ == name]
            for holder in holders:
                for attr_name in sorted(vars(holder)):
                    value = vars(holder)[attr_name]
                    if isinstance(value, (bytes, bytearray)) and 4 <= len(value) <= 64 and not attr_name.startswith('__'):
                        if bytes(value) not in found:
                            found.append(bytes(value))
        _BYTE_CONSTANTS = found[:64]
    return _BYTE_CONSTANTS


_DEP_TABLES = None


def dependency_constant_tables():
    """Tables of byte-string identifiers the data hub keeps (one list per enumeration whose members carry a bytes
    attribute of 16..64 octets, e.g. the certificate transparency log ids)."""
    global _DEP_TABLES  # pylint: disable=global-statement
    if _DEP_TABLES is None:
        import enum
        import sys
        import attr
        tables = []
        for name in sorted(sys.modules):
            if not name.startswith('cryptodatahub.'):
                continue
            module = sys.modules[name]
            for attr_name in sorted(vars(module)):
                obj = vars(module)[attr_name]
                if not (isinstance(obj, type) and issubclass(obj, enum.Enum) and obj.__module__ == name):
                    continue
                found = []
                for member in obj:
                    value = member.value
                    fields = [f.name for f in attr.fields(type(value))] if attr.has(type(value)) else []
                    for field in fields:
                        item = getattr(value, field, None)
                        raw = getattr(item, 'value', item)       # Base64Data-like wrappers keep the octets in .value
                        if isinstance(raw, (bytes, bytearray)) and 16 <= len(raw) <= 64 and bytes(raw) not in found:
                            found.append(bytes(raw))
                if len(found) >= 2:
                    tables.append(found)
        _DEP_TABLES = tables
    return _DEP_TABLES


_NAME_ENUMS = None
_NAME_CHARS = frozenset(b'ABCDEFGHIJKLMNOPQRSTUVWXYZabcdefghijklmnopqrstuvwxyz0123456789@._+/-')


def name_enums():
    """token -> tuple of all tokens of the enumerations (of the library and of cryptodatahub) that contain it: the
    names a peer may put where the input carries one of them (algorithm names, protocol names, keywords)."""
    global _NAME_ENUMS  # pylint: disable=global-statement
    if _NAME_ENUMS is None:
        import enum
        import sys
        table = {}
        for name in sorted(sys.modules):
            if not name.startswith(('cryptoparser.', 'cryptodatahub.')):
                continue
            module = sys.modules[name]
            for attr_name in sorted(vars(module)):
                obj = vars(module)[attr_name]
                if not (isinstance(obj, type) and issubclass(obj, enum.Enum) and obj.__module__ == name):
                    continue
                tokens = []
                for member in obj:
                    code = getattr(member.value, 'code', None)
                    if isinstance(code, str) and 2 <= len(code) <= 64:
                        try:
                            token = code.encode('ascii')
                        except UnicodeError:
                            continue
                        if all(byte in _NAME_CHARS for byte in token) and token not in tokens:
                            tokens.append(token)
                if len(tokens) >= 2:
                    group = tuple(tokens)
                    for token in tokens:
                        table.setdefault(token, [])
                        table[token].append(group)
        _NAME_ENUMS = {token: tuple(sorted({other for group in groups for other in group}))
                       for token, groups in table.items()}
    return _NAME_ENUMS


def name_occurrences(data, limit=64):
    """[(start, end, candidates)] for every whole word of the input that is a known name."""
    table = name_enums()
    out = []
    n = len(data)
    i = 0
    while i < n and len(out) < limit:
        if data[i] in _NAME_CHARS and (i == 0 or data[i - 1] not in _NAME_CHARS):
            j = i
            while j < n and data[j] in _NAME_CHARS:
                j += 1
            word = bytes(data[i:j])
            if 2 <= len(word) <= 64 and word in table:
                out.append((i, j, table[word]))
            i = j
        else:
            i += 1
    return out


def substitute_name(data, start, end, new):
    """data with data[start:end] replaced by `new`, and the length fields that cover it adjusted: the prefix of the
    (comma separated) string the name stands in (1, 2 or 4 octets), and every 2-, 3- or 4-octet big-endian field
    before it whose declared region reaches at least to the end of the name and stays inside the input."""
    delta = len(new) - (end - start)
    out = bytearray(data)
    if delta:
        list_start = start
        while list_start > 0 and (out[list_start - 1] in _NAME_CHARS or out[list_start - 1] == 0x2c):
            list_start -= 1
        list_end = end
        while list_end < len(out) and (out[list_end] in _NAME_CHARS or out[list_end] == 0x2c):
            list_end += 1
        fixed = set()
        for size in (4, 2, 1):
            at = list_start - size
            if at >= 0 and int.from_bytes(out[at:at + size], 'big') == list_end - list_start:
                value = list_end - list_start + delta
                if 0 <= value < (1 << (8 * size)):
                    out[at:at + size] = value.to_bytes(size, 'big')
                    fixed.update(range(at, at + size))
                    list_start = at
                break
        for size in (4, 3, 2):
            for at in range(0, list_start - size + 1):
                if fixed.intersection(range(at, at + size)):
                    continue
                value = int.from_bytes(out[at:at + size], 'big')
                if value and end <= at + size + value <= len(data) and 0 <= value + delta < (1 << (8 * size)):
                    if size == 4 or out[at] == 0 or value > 255:
                        out[at:at + size] = (value + delta).to_bytes(size, 'big')
                        fixed.update(range(at, at + size))
    out[start:end] = new
    return bytes(out)


def is_text(data):
    return bool(data) and sum(1 for byte in data if 0x20 <= byte < 0x7f or byte in (0x0d, 0x0a, 0x09)) >= len(data) * 0.95


def token_faults(rng, data):
    """Grammar-aware replacement for text inputs: a whole value (from a delimiter to the next delimiter or to
    the end) is replaced by a well-formed token of another type."""
    starts = [0]
    for idx, byte in enumerate(data):
        if byte in b':=; ,' and idx + 1 < len(data):
            starts.append(idx + 1)
            if data[idx + 1:idx + 2] == b' ':
                starts.append(idx + 2)
    at = rng.choice(starts)
    end = None
    if rng.random() < 0.5:
        for idx in range(at, len(data)):
            if data[idx] in b';,\r\n' or (data[idx] == 0x20 and rng.random() < 0.3):
                end = idx
                break
    pool = enum_tokens()
    token = rng.choice(pool) if pool and rng.random() < 0.45 else rng.choice(TOKENS)
    if rng.random() < 0.2:
        token = token + b' ' + rng.choice(TOKENS + tuple(pool[:200]))
    return [{'k': 'token', 'at': at, 'end': end, 'hex': token.hex()}]


import re as _re

TYPED_PATTERNS = (
    ('date', _re.compile(rb'[A-Z][a-z]{2}, \d{1,2}[ -][A-Z][a-z]{2}[ -]\d{2,4} \d{2}:\d{2}:\d{2}(?: [A-Z]{3}| [+-]\d{4})?'),
     (b'Fri, 31 Dec 9999 23:59:59 -0100', b'Sat, 01 Jan 0001 00:00:00 +0100', b'0001-01-01T00:00:00+01:00',
      b'Thu, 01 Jan 1970 00:00:00 -2400', b'Thu, 01 Jan 1970 00:00:00 +2359', b'Wed, 21 Oct 2015 07:28:00 +0200',
      b'Wed, 21 Oct 2015 07:28:00 PST', b'9999-12-31T23:59:59-23:59', b'Mon, 99 Foo 9999 99:99:99 GMT', b'1 Jan 1 0:0:0 +9',
      b'Thu, 01 Jan 1970 00:00:00 GMT', b'31 Dec 99999 00:00:00 GMT', b'Tue, 19 Jan 2038 03:14:08 GMT', b'now')),
    ('number', _re.compile(rb'(?<![0-9A-Za-z.])\d+(?![0-9A-Za-z.])'),
     (b'0', b'-1', b'1.5', b'1e9', b'4294967296', b'18446744073709551616', b'9' * 5000, b'00000000001', b'0x10', b'')),
    ('url', _re.compile(rb'(?:https?|wss?|mailto):[^ ;,"\r\n]*'),
     (b'http://[', b'http://[::1', b'https://', b'http://a:b:c', b'http://a:99999999/', b'mailto:', b'//x', b'https://\xc3\xa9.example',
      b'http://' + b'a' * 300 + b'.example', b'https://a..b/', b'javascript:0')),
    ('quoted', _re.compile(rb'"[^"\r\n]*"'), (b'""', b'"', b'"\\"', b'"a"b"', b"'x'", b'"' + b'q' * 300 + b'"')),
    ('ipv4', _re.compile(rb'\d{1,3}\.\d{1,3}\.\d{1,3}\.\d{1,3}(?:/\d+)?'),
     (b'1.2.3', b'256.1.1.1', b'1.2.3.4/33', b'::1', b'1.2.3.4/-1', b'1.2.3.4.5', b'')),
    ('base64', _re.compile(rb'[A-Za-z0-9+/]{12,}={0,2}'), (b'A', b'AAAA', b'====', b'A===', b'!!!!', b'AAAAA')),
)


_DATE_ZONES = (b'+0100', b'-0800', b'EST', b'+0530', b'UTC', b'-0000', b'-0330', b'+1400', b'-1200', b'PDT', b'+0000', b'Z')
_ZONED_DATE = _re.compile(rb'([A-Z][a-z]{2}, \d{1,2}[ -][A-Z][a-z]{2}[ -]\d{2,4} \d{2}:\d{2}:\d{2}) (GMT|UTC|[A-Z]{1,4}|[+-]\d{4})')


def date_zone_variants(data, limit=6):
    """The same text with the zone designator of one date replaced by another (numeric offsets and zone names a
    peer may legitimately send): inputs in which a date-time value carries a non-zero UTC offset."""
    out = []
    for match in _ZONED_DATE.finditer(data):
        for zone in _DATE_ZONES:
            if zone != match.group(2):
                out.append(data[:match.start(2)] + zone + data[match.end(2):])
        break
    return out[:limit]


def typed_faults(rng, data):
    """Replace one value the input visibly carries (a date, a number, a URL, a quoted string, an address, a base64
    blob) with another well-formed or subtly broken value *of the same kind*."""
    spans = []
    for _, pattern, values in TYPED_PATTERNS:
        for match in pattern.finditer(data):
            spans.append((match.start(), match.end(), values))
            if len(spans) > 64:
                break
    if not spans:
        return token_faults(rng, data)
    start, end, values = rng.choice(spans)
    return [{'k': 'token', 'at': start, 'end': end, 'hex': rng.choice(values).hex()}]
