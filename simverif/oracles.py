# -*- coding: utf-8 -*-
"""Per-buffer oracles shared by the wiresim properties.

probe_c02: only the four documented parse errors escape any entry point.
probe_c03: consumed length exact; in-place variant removes exactly n bytes; exact-size variant
           succeeds iff n == len; failed parse leaves the buffer untouched; framing units
           self-delimiting and equal to the header-declared length.
"""

from simverif import core, wire
from simverif import framer as framer_mod
from simverif.canon import canon

ENTRY_POINTS = ('parse_immutable', 'parse_exact_size', 'parse_mutable')


def _invoke(cls, entry, raw, clock=None):
    """Returns ('ok', value, arg) or ('exc', exception, arg)."""
    arg = bytearray(raw) if entry == 'parse_mutable' else bytes(raw)
    func = getattr(cls, entry)
    try:
        value = clock.call(func, arg) if clock is not None else func(arg)
        return 'ok', value, arg
    except (core.RunTimeout, KeyboardInterrupt, SystemExit, core.HarnessError):
        raise
    except BaseException as exc:  # pylint: disable=broad-except
        return 'exc', exc, arg


def probe_c02(cls, raw, res, entries=ENTRY_POINTS, label=None):
    """Every call returns or raises one of the four documented errors."""
    outcome = None
    for entry in entries:
        status, value, _ = _invoke(cls, entry, raw)
        res.stats['calls.' + entry] += 1
        if status == 'ok':
            res.stats['outcome.accepted'] += 1
            kind = 'ok'
        else:
            kind = wire.classify(value)
            res.stats['outcome.' + kind] += 1
            if kind == 'foreign':
                sig = wire.leak_signature('C02', value)
                res.violation(sig, 'undocumented exception escaped %s' % entry,
                              '%s.%s(%d bytes %s) raised %s: %s' % (
                                  cls.__name__, entry, len(raw), bytes(raw[:48]).hex(), type(value).__name__,
                                  str(value)[:200]))
        if outcome is None:
            outcome = kind
        res.note(label or cls.__name__, entry, kind)
    return outcome


def probe_c03(cls, raw, res, framer_name=None, framing=False, junk=b''):  # pylint: disable=too-many-branches,too-many-statements
    """All consumed-length clauses on one buffer."""
    name = cls.__name__
    raw = bytes(raw)
    status, value, arg = _invoke(cls, 'parse_immutable', bytearray(raw))
    if bytes(arg) != raw:
        res.violation(('C03', 'immutable-variant-changed-buffer', name), 'parse_immutable modified its argument',
                      'bytearray of %d bytes changed to %d bytes' % (len(raw), len(arg)))
    m_status, m_value, m_arg = _invoke(cls, 'parse_mutable', raw)
    e_status, e_value, _ = _invoke(cls, 'parse_exact_size', raw)
    if status != 'ok':
        kind = wire.classify(value)
        res.stats['c03.rejected.' + kind] += 1
        res.note(name, 'rejected', kind)
        if m_status == 'ok':
            res.violation(('C03', 'mutable-accepts-what-immutable-rejects', name), 'entry points disagree',
                          'parse_immutable raised %s but parse_mutable succeeded' % type(value).__name__)
        elif bytes(m_arg) != raw:
            res.violation(('C03', 'failed-parse-changed-buffer', name), 'a failed parse must leave the buffer untouched',
                          'parse_mutable raised %s and left %d of %d bytes' % (type(m_value).__name__, len(m_arg), len(raw)))
        if e_status == 'ok':
            res.violation(('C03', 'exact-accepts-what-immutable-rejects', name), 'entry points disagree',
                          'parse_immutable raised %s but parse_exact_size succeeded' % type(value).__name__)
        if framing and framer_name:
            # the converse of the self-delimiting clause: a unit that is accepted alone (consuming all of it) is
            # accepted, with the same count, whatever follows it in the buffer
            declared = framer_mod.frame_length(framer_name, raw)
            if declared is not None and 0 < declared < len(raw):
                status2, value2, _ = _invoke(cls, 'parse_immutable', raw[:declared])
                res.stats['c03.selfdelim_reparse'] += 1
                if status2 == 'ok' and value2[1] == declared:
                    res.violation(('C03', 'rejected-because-of-following-bytes', name, type(value).__name__),
                                  'the result depends only on the n consumed bytes',
                                  'the first %d bytes alone are accepted (n=%d); followed by %d more bytes the parse '
                                  'raised %s' % (declared, declared, len(raw) - declared, type(value).__name__))
        return None
    try:
        obj, n = value
    except (TypeError, ValueError):
        res.violation(('C03', 'bad-return-shape', name), 'parse_immutable must return (object, consumed)', repr(value)[:200])
        return None
    res.stats['c03.accepted'] += 1
    if not isinstance(n, int) or isinstance(n, bool):
        res.violation(('C03', 'consumed-not-int', name), 'consumed length must be an int', repr(n))
        return None
    res.note(name, 'accepted', n, len(raw))
    if n < 0 or n > len(raw):
        res.violation(('C03', 'consumed-out-of-range', name), '0 <= n <= len(buffer)',
                      'n=%d for a buffer of %d bytes (%s)' % (n, len(raw), raw[:40].hex()))
        return None
    if framing and n == 0:
        res.violation(('C03', 'framing-unit-consumed-nothing', name), 'n > 0 for records, handshake messages, banner',
                      'n=0 on %d bytes %s' % (len(raw), raw[:40].hex()))
    expect = canon(obj)
    # in-place variant
    if m_status != 'ok':
        res.violation(('C03', 'mutable-rejects-what-immutable-accepts', name), 'entry points disagree',
                      'parse_mutable raised %s: %s' % (type(m_value).__name__, str(m_value)[:120]))
    else:
        if bytes(m_arg) != raw[n:]:
            res.violation(('C03', 'mutable-removed-wrong-bytes', name), 'in-place variant removes exactly the first n bytes',
                          'n=%d, buffer %d -> %d bytes, suffix %s' % (
                              n, len(raw), len(m_arg), 'preserved' if raw.endswith(bytes(m_arg)) else 'damaged'))
        elif canon(m_value) != expect:
            res.violation(('C03', 'mutable-object-differs', name), 'entry points must yield the same object', '')
    # exact-size variant
    if n == len(raw):
        res.stats['c03.exact_fit'] += 1
        if e_status != 'ok':
            res.violation(('C03', 'exact-rejects-exact-fit', name), 'exact-size variant succeeds precisely when n == len',
                          'n == len == %d but parse_exact_size raised %s' % (n, type(e_value).__name__))
        elif canon(e_value) != expect:
            res.violation(('C03', 'exact-object-differs', name), 'entry points must yield the same object', '')
    else:
        res.stats['c03.trailing_data'] += 1
        if e_status == 'ok':
            res.violation(('C03', 'exact-accepts-trailing-data', name), 'exact-size variant succeeds precisely when n == len',
                          'n=%d, len=%d, yet parse_exact_size succeeded' % (n, len(raw)))
        elif wire.classify(e_value) != 'tmd':
            res.violation(('C03', 'exact-wrong-error', name, type(e_value).__name__),
                          'trailing data must be reported as too-much-data',
                          'n=%d, len=%d, parse_exact_size raised %s' % (n, len(raw), type(e_value).__name__))
    if not framing:
        return n
    # self-delimiting clause
    declared = framer_mod.frame_length(framer_name, raw) if framer_name else None
    if declared is not None:
        res.stats['c03.framer_compared'] += 1
        if declared != n:
            res.violation(('C03', 'consumed-differs-from-header', name), 'n equals the length the frame header declares',
                          'header declares %d bytes, parse consumed %d (buffer %d: %s)' % (
                              declared, n, len(raw), raw[:24].hex()))
    for variant, data in (('alone', raw[:n]), ('with-suffix', raw[:n] + junk)):
        if data == raw:
            continue
        status2, value2, _ = _invoke(cls, 'parse_immutable', data)
        res.stats['c03.selfdelim_reparse'] += 1
        if status2 != 'ok':
            res.violation(('C03', 'not-self-delimiting', name, variant),
                          'the result depends only on the n consumed bytes',
                          'first %d bytes %s: %s instead of the same object' % (n, variant, type(value2).__name__))
        else:
            obj2, n2 = value2
            if n2 != n:
                res.violation(('C03', 'not-self-delimiting', name, variant),
                              'the result depends only on the n consumed bytes',
                              'first %d bytes %s consumed %d' % (n, variant, n2))
            elif canon(obj2) != expect:
                res.violation(('C03', 'object-depends-on-following-bytes', name, variant),
                              'the result depends only on the n consumed bytes', 'objects differ')
    return n
